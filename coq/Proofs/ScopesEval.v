(* C04, evaluator level: evaluating any statement changes at most the innermost frame of
   the scope chain it is given - an assignment inside a nested block never changes what
   the enclosing block sees after the nested block ends, and names bound by @each / @for /
   component arguments vanish with their frame. One induction on the fuel over the mutually
   recursive evaluator functions. *)
From Coq Require Import String.
From TW Require Import Bytes Values Ast Eval Scopes.
Open Scope N_scope.

Definition keeps (en en' : env) : Prop := tl en' = tl en /\ en' <> [].

Lemma keeps_refl en : en <> [] -> keeps en en.
Proof. intros H; split; [reflexivity | exact H]. Qed.

Lemma keeps_trans a b c : keeps a b -> keeps b c -> keeps a c.
Proof. intros [H1 N1] [H2 N2]. split; [congruence | exact N2]. Qed.

Lemma keeps_set en k v en' : en <> [] -> env_set en k v = inl en' -> keeps en en'.
Proof.
  intros Hne H. split; [exact (env_set_outer_unchanged _ _ _ _ H) | exact (env_set_nonempty _ _ _ _ H)].
Qed.

Lemma keeps_bind_args cx f ln en0 ps : forall ne ne',
  ne <> [] -> bind_args cx f ln en0 ps ne = Ok ne' -> keeps ne ne'.
Proof.
  induction ps as [|[k x] ps IH]; intros ne ne' Hne H; cbn [bind_args] in H.
  - inversion H; subst. apply keeps_refl; exact Hne.
  - destruct (eval_expr cx f en0 x) as [v| | | |]; try discriminate.
    destruct (env_set ne k v) as [ne1|msg] eqn:E; [|discriminate].
    pose proof (keeps_set _ _ _ _ Hne E) as K.
    eapply keeps_trans; [exact K|apply IH; [exact (proj2 K)|exact H]].
Qed.

Lemma keeps_set_loop en i len : en <> [] -> keeps en (env_set_loop en i len).
Proof. intros Hne. unfold env_set_loop. destruct en; [congruence|]. split; [reflexivity | discriminate]. Qed.

Lemma cons_nonempty {A} (x : A) l : x :: l <> [].
Proof. discriminate. Qed.

(* a nested block: evaluated on a fresh frame, the frame is dropped: the chain is back as it was *)
Lemma nested_back (en be : env) : keeps ([] :: en) be -> tl be = en.
Proof. intros [H _]. exact H. Qed.

Section WithCtx.
Variable cx : ctx.

Definition P_stmt (f : nat) : Prop :=
  forall en s v en', en <> [] -> eval_stmt cx f en s = Ok (v, en') -> keeps en en'.
Definition P_block (f : nat) : Prop :=
  forall en ss acc v en', en <> [] -> eval_block cx f en ss acc = Ok (v, en') -> keeps en en'.
Definition P_alts (f : nat) : Prop :=
  forall en alts alt v en', en <> [] -> eval_alts cx f en alts alt = Ok (v, en') -> en' = en.
Definition P_prog (f : nat) : Prop :=
  forall en ss out o en', en <> [] -> eval_program cx f en ss out = Ok (o, en') -> keeps en en'.
Definition P_for (f : nat) : Prop :=
  forall ln init c post body en out o en', en <> [] ->
    for_loop cx f ln init c post body en out = Ok (o, en') -> keeps en en'.
Definition P_each (f : nat) : Prop :=
  forall ln var body len i elems en out o en', en <> [] ->
    each_loop cx f ln var body len i elems en out = Ok (o, en') -> keeps en en'.

Definition P_all (f : nat) : Prop :=
  P_stmt f /\ P_block f /\ P_alts f /\ P_prog f /\ P_for f /\ P_each f.

(* destructs the scrutinee of the outermost match in hypothesis H *)
Ltac step_in H :=
  match type of H with
  | match ?x with _ => _ end = _ => destruct x eqn:?; try discriminate
  | (let! _ := ?x in _) = _ => destruct x eqn:?; try discriminate
  | (if ?b then _ else _) = _ => destruct b eqn:?; try discriminate
  end.

Ltac done_ok H := inversion H; subst; clear H.

Lemma all_P : forall f, P_all f.
Proof.
  induction f as [|f (IHs & IHb & IHa & IHp & IHf & IHe)].
  { unfold P_all, P_stmt, P_block, P_alts, P_prog, P_for, P_each.
    refine (conj _ (conj _ (conj _ (conj _ (conj _ _))))); intros; discriminate. }
  refine (conj _ (conj _ (conj _ (conj _ (conj _ _))))).
  - (* eval_stmt *)
    intros en s v en' Hne H. cbn [eval_stmt] in H.
    destruct s as [ | ln lit | e | ln name e | ln c thn alts alt | ln init c post body alt
                   | ln var arr body alt | ln name layout | ln rid name ins | ln name arg body
                   | ln c | ln c | | | ln cid name arg slots block | ln name body | ln args ].
    + discriminate.
    + done_ok H. apply keeps_refl; assumption.
    + destruct (eval_expr cx f en e) as [ev| | | |]; try discriminate.
      done_ok H. apply keeps_refl; assumption.
    + destruct (eval_expr cx f en e) as [ev| | | |]; try discriminate.
      destruct (env_set en name ev) as [e1|msg] eqn:E; try discriminate.
      done_ok H. eapply keeps_set; eassumption.
    + (* SIf *)
      destruct (eval_expr cx f en c) as [cv| | | |]; try discriminate.
      destruct (truthy cv).
      * destruct (eval_block cx f ([] :: en) thn []) as [[bv be]| | | |] eqn:E; try discriminate.
        done_ok H. cbn [fst snd].
        rewrite (nested_back en be (IHb _ _ _ _ _ (cons_nonempty _ _) E)).
        apply keeps_refl; assumption.
      * destruct (eval_alts cx f en alts alt) as [[av ae]| | | |] eqn:E; try discriminate.
        done_ok H. rewrite (IHa _ _ _ _ _ Hne E). apply keeps_refl; assumption.
    + (* SFor *)
      set (en0 := [] :: en) in *.
      destruct (match init with SNull => Ok (VNil, en0) | _ => eval_stmt cx f en0 init end)
        as [[iv en1]| | | |] eqn:Ei; try discriminate.
      assert (K1 : keeps en0 en1).
      { destruct init; try (apply (IHs _ _ _ _ (cons_nonempty _ _) Ei)).
        inversion Ei; subst. apply keeps_refl; apply cons_nonempty. }
      cbn [snd] in H.
      destruct (match c with ENull => Ok true | _ => let! cv := eval_expr cx f en1 c in Ok (truthy cv) end)
        as [enter| | | |] eqn:Ec; try discriminate.
      assert (Back : forall e2 : env, keeps en1 e2 -> tl e2 = en).
      { intros e2 [T _]. rewrite T. exact (proj1 K1). }
      destruct enter; destruct alt as [a|].
      * destruct (for_loop cx f ln init c post body en1 []) as [[o e2]| | | |] eqn:El; try discriminate.
        done_ok H. cbn [fst snd]. rewrite (Back e2 (IHf _ _ _ _ _ _ _ _ _ (proj2 K1) El)).
        apply keeps_refl; assumption.
      * destruct (for_loop cx f ln init c post body en1 []) as [[o e2]| | | |] eqn:El; try discriminate.
        done_ok H. cbn [fst snd]. rewrite (Back e2 (IHf _ _ _ _ _ _ _ _ _ (proj2 K1) El)).
        apply keeps_refl; assumption.
      * destruct (eval_block cx f en1 a []) as [[bv e2]| | | |] eqn:El; try discriminate.
        done_ok H. cbn [fst snd]. rewrite (Back e2 (IHb _ _ _ _ _ (proj2 K1) El)).
        apply keeps_refl; assumption.
      * destruct (for_loop cx f ln init c post body en1 []) as [[o e2]| | | |] eqn:El; try discriminate.
        done_ok H. cbn [fst snd]. rewrite (Back e2 (IHf _ _ _ _ _ _ _ _ _ (proj2 K1) El)).
        apply keeps_refl; assumption.
    + (* SEach *)
      destruct (eval_expr cx f ([] :: en) arr) as [av| | | |]; try discriminate.
      destruct av as [ | | | | | elems | | | | | | | | | | ]; try discriminate.
      assert (Back : forall e2 : env, keeps ([] :: en) e2 -> tl e2 = en)
        by (intros e2 [T _]; exact T).
      destruct elems as [|x xs]; destruct alt as [a|].
      * destruct (eval_block cx f ([] :: en) a []) as [[bv e2]| | | |] eqn:El; try discriminate.
        done_ok H. cbn [fst snd]. rewrite (Back e2 (IHb _ _ _ _ _ (cons_nonempty _ _) El)).
        apply keeps_refl; assumption.
      * destruct (each_loop cx f ln var body (List.length (@nil value)) 0 [] ([] :: en) []) as [[o e2]| | | |] eqn:El;
          try discriminate.
        done_ok H. cbn [fst snd].
        rewrite (Back e2 (IHe _ _ _ _ _ _ _ _ _ _ (cons_nonempty _ _) El)).
        apply keeps_refl; assumption.
      * destruct (each_loop cx f ln var body (List.length (x :: xs)) 0 (x :: xs) ([] :: en) []) as [[o e2]| | | |] eqn:El;
          try discriminate.
        done_ok H. cbn [fst snd].
        rewrite (Back e2 (IHe _ _ _ _ _ _ _ _ _ _ (cons_nonempty _ _) El)).
        apply keeps_refl; assumption.
      * destruct (each_loop cx f ln var body (List.length (x :: xs)) 0 (x :: xs) ([] :: en) []) as [[o e2]| | | |] eqn:El;
          try discriminate.
        done_ok H. cbn [fst snd].
        rewrite (Back e2 (IHe _ _ _ _ _ _ _ _ _ _ (cons_nonempty _ _) El)).
        apply keeps_refl; assumption.
    + (* SUse *)
      destruct layout as [[[isL hasU] ss]|]; try discriminate.
      destruct (isL && hasU); try discriminate.
      destruct (eval_program cx f en ss []) as [[o e2]| | | |] eqn:Ep; try discriminate.
      done_ok H. cbn [snd]. eapply IHp; eassumption.
    + (* SReserve *)
      destruct ins as [[[iln arg] [b|]]|].
      * destruct (eval_block cx f en b []) as [[bv e2]| | | |] eqn:Eb; try discriminate.
        done_ok H. cbn [snd]. eapply IHb; eassumption.
      * destruct arg; try discriminate;
          match type of H with (let! _ := ?x in _) = _ => destruct x; try discriminate end;
          done_ok H; apply keeps_refl; assumption.
      * done_ok H. apply keeps_refl; assumption.
    + done_ok H. apply keeps_refl; assumption.
    + destruct (eval_expr cx f en c) as [cv| | | |]; try discriminate.
      done_ok H. apply keeps_refl; assumption.
    + destruct (eval_expr cx f en c) as [cv| | | |]; try discriminate.
      done_ok H. apply keeps_refl; assumption.
    + done_ok H. apply keeps_refl; assumption.
    + done_ok H. apply keeps_refl; assumption.
    + (* SComponent *)
      destruct block as [ss|]; try discriminate.
      destruct (match arg with
                | Some (EObj _ pairs) => bind_args cx f ln en (asort pairs) ([] :: en)
                | Some _ => Panic
                | None => Ok ([] :: en)
                end) as [en1| | | |] eqn:Ea; try discriminate.
      assert (K1 : keeps ([] :: en) en1).
      { destruct arg as [a|].
        - destruct a; try discriminate.
          apply (keeps_bind_args cx f ln en (asort pairs)); [apply cons_nonempty|exact Ea].
        - inversion Ea; subst. apply keeps_refl. apply cons_nonempty. }
      destruct (eval_program cx f en1 ss []) as [[o e2]| | | |] eqn:Ep; try discriminate.
      done_ok H. cbn [fst snd].
      destruct (IHp _ _ _ _ _ (proj2 K1) Ep) as [T _]. rewrite T, (proj1 K1). cbn [tl].
      apply keeps_refl; assumption.
    + (* SSlot *)
      destruct body as [b|].
      * destruct (eval_block cx f en b []) as [[bv e2]| | | |] eqn:Eb; try discriminate.
        done_ok H. cbn [snd]. eapply IHb; eassumption.
      * done_ok H. apply keeps_refl; assumption.
    + (* SDump *)
      destruct (dump_args (eval_expr cx f en) args) as [ds| | | |]; try discriminate.
      done_ok H. apply keeps_refl; assumption.
  - (* eval_block *)
    intros en ss acc v en' Hne H. cbn [eval_block] in H. destruct ss as [|s ss].
    + done_ok H. apply keeps_refl; assumption.
    + destruct (eval_stmt cx f en s) as [[sv e1]| | | |] eqn:Es; try discriminate.
      pose proof (IHs _ _ _ _ Hne Es) as K1.
      cbn [fst snd] in H. destruct (has_break sv || has_continue sv).
      * done_ok H. exact K1.
      * eapply keeps_trans; [exact K1 | eapply IHb; [exact (proj2 K1) | eassumption]].
  - (* eval_alts *)
    intros en alts alt v en' Hne H. cbn [eval_alts] in H.
    assert (Back : forall e2 : env, keeps ([] :: en) e2 -> tl e2 = en)
      by (intros e2 [T _]; exact T).
    destruct alts as [|[c b] alts].
    + destruct alt as [a|].
      * destruct (eval_block cx f ([] :: en) a []) as [[bv e2]| | | |] eqn:Eb; try discriminate.
        done_ok H. cbn [fst snd].
        apply (Back e2). eapply IHb; [apply cons_nonempty | eassumption].
      * done_ok H. reflexivity.
    + destruct (eval_expr cx f en c) as [cv| | | |]; try discriminate.
      destruct (truthy cv).
      * destruct (eval_block cx f ([] :: en) b []) as [[bv e2]| | | |] eqn:Eb; try discriminate.
        done_ok H. cbn [fst snd].
        apply (Back e2). eapply IHb; [apply cons_nonempty | eassumption].
      * eapply IHa; eassumption.
  - (* eval_program *)
    intros en ss out o en' Hne H. cbn [eval_program] in H. destruct ss as [|s ss].
    + done_ok H. apply keeps_refl; assumption.
    + destruct (eval_stmt cx f en s) as [[sv e1]| | | |] eqn:Es; try discriminate.
      pose proof (IHs _ _ _ _ Hne Es) as K1.
      cbn [fst snd] in H. destruct (str_of sv) as [str| | | |]; try discriminate.
      eapply keeps_trans; [exact K1 | eapply IHp; [exact (proj2 K1) | eassumption]].
  - (* for_loop *)
    intros ln init c post body en out o en' Hne H. cbn [for_loop] in H.
    destruct (match c with ENull => Ok true | _ => let! cv := eval_expr cx f en c in Ok (truthy cv) end)
      as [go| | | |] eqn:Ec; try discriminate.
    destruct go; cbn [negb] in H.
    2:{ done_ok H. apply keeps_refl; assumption. }
    destruct (eval_block cx f en body []) as [[bv e1]| | | |] eqn:Eb; try discriminate.
    pose proof (IHb _ _ _ _ _ Hne Eb) as K1.
    cbn [fst snd] in H. destruct (str_of bv) as [str| | | |]; try discriminate.
    destruct (has_break bv).
    { done_ok H. exact K1. }
    assert (Go : forall e2, keeps en e2 ->
              for_loop cx f ln init c post body e2 (out ++ str) = Ok (o, en') -> keeps en en').
    { intros e2 K Hl. eapply keeps_trans; [exact K | eapply IHf; [exact (proj2 K) | exact Hl]]. }
    destruct post as [ | pln plit | pe | pln pname pe | | | | | | | | | | | | | ];
      try (exact (Go _ K1 H));
      match type of H with
      | (let! _ := ?x in _) = _ => destruct x as [[pv e2]| | | |] eqn:Ep; try discriminate
      end;
      pose proof (IHs _ _ _ _ (proj2 K1) Ep) as K2; cbn [fst snd] in H;
      try (destruct init; exact (Go _ (keeps_trans _ _ _ K1 K2) H)).
    (* post is an expression statement: the init variable may be re-bound *)
    destruct init as [ | | | iln iname ie | | | | | | | | | | | | | ];
      try (exact (Go _ (keeps_trans _ _ _ K1 K2) H)).
    destruct (env_set e2 iname pv) as [e3|msg] eqn:E3; try discriminate.
    pose proof (keeps_set _ _ _ _ (proj2 K2) E3) as K3.
    exact (Go _ (keeps_trans _ _ _ K1 (keeps_trans _ _ _ K2 K3)) H).
  - (* each_loop *)
    intros ln var body len i elems en out o en' Hne H. cbn [each_loop] in H.
    destruct elems as [|x xs].
    + done_ok H. apply keeps_refl; assumption.
    + destruct (env_set en var x) as [e1|msg] eqn:E1; try discriminate.
      pose proof (keeps_set _ _ _ _ Hne E1) as K1.
      pose proof (keeps_set_loop e1 i len (proj2 K1)) as K2.
      destruct (eval_block cx f (env_set_loop e1 i len) body []) as [[bv e2]| | | |] eqn:Eb; try discriminate.
      pose proof (IHb _ _ _ _ _ (proj2 K2) Eb) as K3.
      cbn [fst snd] in H. destruct (str_of bv) as [str| | | |]; try discriminate.
      destruct (has_break bv).
      * done_ok H. eapply keeps_trans; [exact K1 | eapply keeps_trans; [exact K2 | exact K3]].
      * eapply keeps_trans; [exact K1 | eapply keeps_trans; [exact K2 | eapply keeps_trans; [exact K3 |
          eapply IHe; [exact (proj2 K3) | eassumption]]]].
Qed.

(* the statement of C04's first clause on the model *)
Theorem stmt_changes_innermost_frame_only f en s v en' :
  en <> [] -> eval_stmt cx f en s = Ok (v, en') -> tl en' = tl en.
Proof. intros Hne H. exact (proj1 (proj1 (all_P f) en s v en' Hne H)). Qed.

(* @if ... @end as a whole leaves the chain exactly as it was: nothing assigned inside escapes *)
Theorem if_leaves_scope_unchanged f en ln c thn alts alt v en' :
  en <> [] -> eval_stmt cx f en (SIf ln c thn alts alt) = Ok (v, en') -> en' = en.
Proof.
  intros Hne H. destruct f as [|f]; [discriminate|]. cbn [eval_stmt] in H.
  destruct (eval_expr cx f en c) as [cv| | | |]; try discriminate.
  destruct (truthy cv).
  - destruct (eval_block cx f ([] :: en) thn []) as [[bv be]| | | |] eqn:E; try discriminate.
    inversion H; subst. cbn [snd].
    exact (proj1 (proj1 (proj2 (all_P f)) _ _ _ _ _ (cons_nonempty _ _) E)).
  - exact (proj1 (proj2 (proj2 (all_P f))) _ _ _ _ _ Hne H).
Qed.

(* the loops as well: whatever the header clauses and the passes assign lives in the loop's own frame,
   which is dropped at @end - also when the @for has no init clause, and for the @else branch *)
Theorem for_leaves_scope_unchanged f en ln init c post body alt v en' :
  en <> [] -> eval_stmt cx f en (SFor ln init c post body alt) = Ok (v, en') -> en' = en.
Proof.
  intros Hne H. destruct f as [|f]; [discriminate|]. cbn [eval_stmt] in H.
  destruct (all_P f) as (Ps & Pb & _ & _ & Pf & _).
  assert (K0 : forall r0, (match init with SNull => Ok (VNil, [] :: en) | _ => eval_stmt cx f ([] :: en) init end) = Ok r0 ->
                          keeps ([] :: en) (snd r0)).
  { intros [v0 e0] E. destruct init; try (exact (Ps _ _ _ _ (cons_nonempty _ _) E)).
    inversion E; subst. apply keeps_refl. apply cons_nonempty. }
  destruct (match init with SNull => Ok (VNil, [] :: en) | _ => eval_stmt cx f ([] :: en) init end) as [r0| | | |] eqn:E0; try discriminate.
  specialize (K0 r0 eq_refl). cbn beta iota zeta in H.
  destruct (match c with ENull => Ok true | _ => let! cv := eval_expr cx f (snd r0) c in Ok (truthy cv) end) as [enter| | | |]; try discriminate.
  cbn beta iota in H.
  assert (Kloop : forall r, for_loop cx f ln init c post body (snd r0) [] = Ok r -> tl (snd r) = en).
  { intros [o e1] E. pose proof (Pf _ _ _ _ _ _ _ _ _ (proj2 K0) E) as K.
    exact (nested_back en e1 (keeps_trans _ _ _ K0 K)). }
  assert (Kalt : forall a r, eval_block cx f (snd r0) a [] = Ok r -> tl (snd r) = en).
  { intros a [o e1] E. pose proof (Pb _ _ _ _ _ (proj2 K0) E) as K.
    exact (nested_back en e1 (keeps_trans _ _ _ K0 K)). }
  destruct enter; [|destruct alt as [a|]].
  - destruct (for_loop cx f ln init c post body (snd r0) []) as [r| | | |] eqn:E; try discriminate.
    inversion H; subst. first [exact (Kloop r E) | exact (Kloop r eq_refl)].
  - destruct (eval_block cx f (snd r0) a []) as [r| | | |] eqn:E; try discriminate.
    inversion H; subst. first [exact (Kalt a r E) | exact (Kalt a r eq_refl)].
  - destruct (for_loop cx f ln init c post body (snd r0) []) as [r| | | |] eqn:E; try discriminate.
    inversion H; subst. first [exact (Kloop r E) | exact (Kloop r eq_refl)].
Qed.

Theorem each_leaves_scope_unchanged f en ln var arr body alt v en' :
  en <> [] -> eval_stmt cx f en (SEach ln var arr body alt) = Ok (v, en') -> en' = en.
Proof.
  intros Hne H. destruct f as [|f]; [discriminate|]. cbn [eval_stmt] in H.
  destruct (all_P f) as (_ & Pb & _ & _ & _ & Pe).
  destruct (eval_expr cx f ([] :: en) arr) as [av| | | |]; try discriminate.
  cbn beta iota zeta in H. destruct av; try discriminate.
  assert (Kloop : forall elems r, each_loop cx f ln var body (List.length elems) 0 elems ([] :: en) [] = Ok r -> tl (snd r) = en).
  { intros elems [o e1] E. exact (nested_back en e1 (Pe _ _ _ _ _ _ _ _ _ _ (cons_nonempty _ _) E)). }
  assert (Kalt : forall a r, eval_block cx f ([] :: en) a [] = Ok r -> tl (snd r) = en).
  { intros a [o e1] E. exact (nested_back en e1 (Pb _ _ _ _ _ (cons_nonempty _ _) E)). }
  match type of H with context [match ?l with [] => _ | _ :: _ => _ end] => destruct l as [|x xs] eqn:El end.
  - destruct alt as [a|].
    + destruct (eval_block cx f ([] :: en) a []) as [r| | | |] eqn:E; try discriminate.
      inversion H; subst. first [exact (Kalt a r E) | exact (Kalt a r eq_refl)].
    + destruct (each_loop cx f ln var body (List.length (@nil value)) 0 [] ([] :: en) []) as [r| | | |] eqn:E; try discriminate.
      inversion H; subst. first [exact (Kloop [] r E) | exact (Kloop [] r eq_refl)].
  - destruct (each_loop cx f ln var body (List.length (x :: xs)) 0 (x :: xs) ([] :: en) []) as [r| | | |] eqn:E; try discriminate.
    inversion H; subst. first [exact (Kloop (x :: xs) r E) | exact (Kloop (x :: xs) r eq_refl)].
Qed.

End WithCtx.
