(* C05, second sentence: a backslash immediately before "{{" or before a directive keyword is
   removed and what follows is emitted literally.  For every byte string whose only active syntax
   is such escapes, the lexer model yields one text token holding the unescaped text, and the
   render is that text - which is also what the reference scanner of Spec/Text.v says. *)
From Coq Require Import String Lia.
From TW Require Import Bytes GenToken Lexer Ast Parser Values Builtins Eval Render Text Passthrough GenTie.
Open Scope N_scope.

(* ---------- a directive keyword at the current position is found by isDirectiveToken *)
Lemma directive_values_legal :
  forallb (fun p => negb (tok_eqb (snd p) T_ILLEGAL)) directives_b = true.
Proof. vm_compute. reflexivity. Qed.

Lemma alookup_key_found {A} k (m : list (bytes * A)) :
  In k (map fst m) -> exists v, alookup k m = Some v /\ In v (map snd m).
Proof.
  induction m as [|[k' v'] m IH]; cbn [map fst In alookup]; [intros []|].
  intros [E|I].
  - subst k'. rewrite bytes_eqb_refl. exists v'. split; [reflexivity|left; reflexivity].
  - destruct (bytes_eqb k k'); [exists v'; split; [reflexivity|left; reflexivity]|].
    destruct (IH I) as (v & E & Iv). exists v. split; [exact E|right; exact Iv].
Qed.

Lemma keyword_is_directive kw : In kw directive_words -> tok_eqb (lookupDirective kw) T_ILLEGAL = false.
Proof.
  intro I. rewrite directive_words_are_keys in I. destruct (alookup_key_found kw directives_b I) as (v & E & Iv).
  unfold lookupDirective. rewrite E.
  pose proof directive_values_legal as F. rewrite forallb_forall in F.
  apply in_map_iff in Iv as ([k v'] & Ev & Ip). cbn [snd] in Ev. subst v'.
  specialize (F _ Ip). cbn [snd] in F. apply negb_true_iff in F. exact F.
Qed.

Lemma keyword_length kw : In kw directive_words -> (1 <= List.length kw <= longestDirective)%nat.
Proof.
  intro I. split.
  - pose proof directives_well_formed as F. rewrite forallb_forall in F.
    unfold directive_words in I. apply in_map_iff in I as (p & <- & Ip). specialize (F p Ip).
    destruct (bs (fst p)); [discriminate F|]. cbn [List.length]. apply le_n_S, Nat.le_0_l.
  - rewrite directive_words_are_keys in I. unfold longestDirective.
    induction directives_b as [|p m IH]; [destruct I|]. cbn [map fold_right fst] in *.
    destruct I as [<-|I]; [apply Nat.le_max_l|]. specialize (IH I). etransitivity; [exact IH|apply Nat.le_max_r].
Qed.

Lemma firstn_of_prefix (kw r : bytes) : prefixb kw r = true -> firstn (List.length kw) r = kw.
Proof. intro H. apply prefixb_spec in H as (t & ->). rewrite firstn_app, Nat.sub_diag, firstn_all. cbn. apply app_nil_r. Qed.

Lemma isDirTok_loop_found kw : forall n i l,
  In kw directive_words -> prefixb kw (rest l) = true ->
  (i <= List.length kw)%nat -> (List.length kw < i + n)%nat ->
  isDirTok_loop n i l = if prevChar l =? 92 then (false, true) else (true, false).
Proof.
  induction n as [|n IH]; intros i l I P Hi Hn; [lia|]. cbn [isDirTok_loop].
  assert (Hlen : (List.length kw <= List.length (rest l))%nat).
  { apply prefixb_spec in P as (t & ->). rewrite app_length. lia. }
  destruct (Nat.ltb_spec (List.length (rest l)) i); [lia|].
  destruct (tok_eqb (lookupDirective (firstn i (rest l))) T_ILLEGAL) eqn:E; [|reflexivity].
  apply IH; try assumption; [|lia].
  destruct (Nat.eq_dec i (List.length kw)) as [->|N]; [|lia].
  rewrite (firstn_of_prefix kw (rest l) P), (keyword_is_directive kw I) in E. discriminate E.
Qed.

Lemma isDirectiveToken_found l :
  starts_directive (rest l) = true ->
  isDirectiveToken l = if prevChar l =? 92 then (false, true) else (true, false).
Proof.
  intro H. unfold starts_directive in H. apply existsb_exists in H as (kw & I & P).
  destruct (keyword_length kw I) as [L1 L2].
  assert (C : cur l = 64).
  { pose proof directives_well_formed as F. rewrite forallb_forall in F.
    unfold directive_words in I. apply in_map_iff in I as (p & E & Ip). specialize (F p Ip). rewrite E in F.
    destruct kw as [|c kw']; [discriminate F|]. apply andb_true_iff in F as [F _]. apply N.eqb_eq in F. subst c.
    apply prefixb_spec in P as (t & Er). unfold cur. rewrite Er. reflexivity. }
  unfold isDirectiveToken. rewrite C. change (negb (64 =? 64)) with false. cbv iota.
  apply (isDirTok_loop_found kw); try assumption; lia.
Qed.

(* ---------- text whose only active syntax is escapes, and what it stands for *)
Fixpoint esc_text (fuel : nat) (s : bytes) : option bytes :=
  match fuel with
  | O => None
  | S f =>
    match s with
    | [] => Some []
    | c :: s' =>
      if c =? 0 then None
      else if (c =? 92) && prefixb [123; 123] s' then option_map (app [123; 123]) (esc_text f (skipn 2 s'))
      else if (c =? 92) && starts_directive s' then option_map (cons 64) (esc_text f (skipn 1 s'))
      else if prefixb [123; 123] s then None
      else if starts_directive s then None
      else option_map (cons c) (esc_text f s')
    end
  end.

(* the reference scanner of the specification agrees *)
Lemma esc_text_scan : forall fuel s o, esc_text fuel s = Some o -> scan fuel s = TOut o.
Proof.
  induction fuel as [|f IH]; intros s o; [discriminate|]. cbn [esc_text scan].
  destruct s as [|c s']; [intros [= <-]; reflexivity|].
  destruct (c =? 0); [discriminate|].
  destruct ((c =? 92) && prefixb [123; 123] s').
  { destruct (esc_text f (skipn 2 s')) as [o'|] eqn:E; [|discriminate]. intros [= <-]. rewrite (IH _ _ E). reflexivity. }
  destruct ((c =? 92) && starts_directive s').
  { destruct (esc_text f (skipn 1 s')) as [o'|] eqn:E; [|discriminate]. intros [= <-]. rewrite (IH _ _ E). reflexivity. }
  destruct (prefixb [123; 123] (c :: s')) eqn:Eb; [discriminate|].
  assert (Ec : prefixb [123; 123; 45; 45] (c :: s') = false).
  { destruct (prefixb [123; 123; 45; 45] (c :: s')) eqn:X; [|reflexivity].
    apply prefixb_spec in X as (t & X). rewrite X in Eb. cbn in Eb. discriminate Eb. }
  rewrite Ec.
  destruct (starts_directive (c :: s')); [discriminate|].
  destruct (esc_text f s') as [o'|] eqn:E; [|discriminate]. intros [= <-]. rewrite (IH _ _ E). reflexivity.
Qed.

Lemma starts_directive_at s : starts_directive s = true -> exists s', s = 64 :: s'.
Proof.
  intro H. unfold starts_directive in H. apply existsb_exists in H as (kw & I & P).
  pose proof directives_well_formed as F. rewrite forallb_forall in F.
  unfold directive_words in I. apply in_map_iff in I as (p & E & Ip). specialize (F p Ip). rewrite E in F.
  destruct kw as [|c kw']; [discriminate F|]. apply andb_true_iff in F as [F _]. apply N.eqb_eq in F. subst c.
  apply prefixb_spec in P as (t & ->). eexists; reflexivity.
Qed.

(* one step of the text loop on a character that is neither "{{" nor a directive start *)
Lemma readHTML_loop_step c r l out :
  rest l = c :: r -> isHTML l = true -> (c =? 0) = false ->
  prefixb [123; 123] (c :: r) = false -> starts_directive (c :: r) = false ->
  readHTML_loop (c :: r) l out = readHTML_loop r (readChar l) (c :: out).
Proof.
  intros Hr Hh H0 Hb Hd. cbn [readHTML_loop]. rewrite Hh. cbn [negb orb].
  assert (Hc : cur l = c) by (unfold cur; rewrite Hr; reflexivity).
  rewrite Hc, H0.
  rewrite (isDirectiveToken_none l) by (rewrite Hr; exact Hd).
  rewrite (areBraces_none l) by (rewrite Hr; exact Hb).
  reflexivity.
Qed.

Lemma prevChar_readChar l : prevChar (readChar l) = cur l.
Proof. reflexivity. Qed.

Lemma rest_readChar l c r : rest l = c :: r -> rest (readChar l) = r.
Proof. intro H. cbn [readChar rest]. rewrite H. reflexivity. Qed.

Lemma backslash_not_special r : prefixb [123; 123] (92 :: r) = false /\ starts_directive (92 :: r) = false.
Proof.
  split; [reflexivity|]. destruct (starts_directive (92 :: r)) eqn:E; [|reflexivity].
  apply starts_directive_at in E as (s' & E). discriminate E.
Qed.

Lemma readHTML_loop_esc : forall fuel s l out o,
  rest l = s -> isHTML l = true -> esc_text fuel s = Some o ->
  exists l', readHTML_loop s l out = (l', rev o ++ out) /\ rest l' = [] /\ isHTML l' = true.
Proof.
  induction fuel as [|f IH]; intros s l out o Hr Hh; [discriminate|]. cbn [esc_text].
  destruct s as [|c s'].
  { intros [= <-]. exists l. cbn. repeat split; assumption. }
  destruct (c =? 0) eqn:H0; [discriminate|].
  destruct ((c =? 92) && prefixb [123; 123] s') eqn:E1.
  { (* \{{ : the backslash goes, both braces are text *)
    apply andb_true_iff in E1 as [Ec Eb]. apply N.eqb_eq in Ec. subst c.
    apply prefixb_spec in Eb as (s2 & ->). cbn [app skipn] in Hr |- *.
    destruct (esc_text f s2) as [o2|] eqn:E; [|discriminate]. intros [= <-].
    destruct (backslash_not_special (123 :: 123 :: s2)) as [B1 B2].
    rewrite (readHTML_loop_step 92 _ l out Hr Hh eq_refl B1 B2).
    set (l1 := readChar l).
    assert (Hr1 : rest l1 = 123 :: 123 :: s2) by (apply (rest_readChar l 92), Hr).
    cbn [readHTML_loop]. change (isHTML l1) with (isHTML l). rewrite Hh. cbn [negb orb].
    assert (Hc1 : cur l1 = 123) by (unfold cur; rewrite Hr1; reflexivity).
    assert (Hp1 : peekChar l1 = 123) by (unfold peekChar; rewrite Hr1; reflexivity).
    assert (Hv1 : prevChar l1 = 92) by (unfold l1; rewrite prevChar_readChar; unfold cur; rewrite Hr; reflexivity).
    rewrite Hc1. change (123 =? 0) with false. cbv iota.
    unfold isDirectiveToken. rewrite Hc1. change (negb (123 =? 64)) with true. cbv iota.
    unfold areBracesToken. rewrite Hc1, Hp1, Hv1. cbn [N.eqb Pos.eqb andb negb orb]. cbv iota. cbn [tl].
    set (l2 := readChar l1).
    assert (Hr2 : rest l2 = 123 :: s2) by (apply (rest_readChar l1 123), Hr1).
    assert (Hc2 : cur l2 = 123) by (unfold cur; rewrite Hr2; reflexivity).
    rewrite Hc2.
    destruct (IH s2 (readChar l2) (123 :: 123 :: out) o2 (rest_readChar l2 123 s2 Hr2) Hh E) as (l' & He & R' & H').
    destruct s2 as [|x s2'].
    - exists (readChar l2). cbn [esc_text] in E. destruct f; [discriminate E|]. cbn [esc_text] in E. injection E as <-.
      cbn [rev app]. repeat split; [apply (rest_readChar l2 123 []), Hr2|exact Hh].
    - exists l'. rewrite He. cbn [rev app]. rewrite <- !app_assoc. cbn [app]. repeat split; assumption. }
  destruct ((c =? 92) && starts_directive s') eqn:E2.
  { (* \@directive : the backslash goes, the keyword is text *)
    apply andb_true_iff in E2 as [Ec Ed]. apply N.eqb_eq in Ec. subst c.
    destruct (starts_directive_at s' Ed) as (s3 & ->). cbn [skipn].
    destruct (esc_text f s3) as [o3|] eqn:E; [|discriminate]. intros [= <-].
    destruct (backslash_not_special (64 :: s3)) as [B1 B2].
    rewrite (readHTML_loop_step 92 _ l out Hr Hh eq_refl B1 B2).
    set (l1 := readChar l).
    assert (Hr1 : rest l1 = 64 :: s3) by (apply (rest_readChar l 92), Hr).
    cbn [readHTML_loop]. change (isHTML l1) with (isHTML l). rewrite Hh. cbn [negb orb].
    assert (Hc1 : cur l1 = 64) by (unfold cur; rewrite Hr1; reflexivity).
    assert (Hv1 : prevChar l1 = 92) by (unfold l1; rewrite prevChar_readChar; unfold cur; rewrite Hr; reflexivity).
    rewrite Hc1. change (64 =? 0) with false. cbv iota.
    rewrite (isDirectiveToken_found l1) by (rewrite Hr1; exact Ed). rewrite Hv1. change (92 =? 92) with true. cbv iota.
    unfold areBracesToken. rewrite Hc1. change (64 =? 123) with false. cbn [andb orb]. rewrite andb_false_r. cbv iota. cbn [tl].
    destruct (IH s3 (readChar l1) (64 :: out) o3 (rest_readChar l1 64 s3 Hr1) Hh E) as (l' & He & R' & H').
    exists l'. rewrite He. cbn [rev]. rewrite <- app_assoc. cbn [app]. repeat split; assumption. }
  destruct (prefixb [123; 123] (c :: s')) eqn:Eb; [discriminate|].
  destruct (starts_directive (c :: s')) eqn:Ed; [discriminate|].
  destruct (esc_text f s') as [o'|] eqn:E; [|discriminate]. intros [= <-].
  rewrite (readHTML_loop_step c s' l out Hr Hh H0 Eb Ed).
  destruct (IH s' (readChar l) (c :: out) o' (rest_readChar l c s' Hr) Hh E) as (l' & He & R' & H').
  exists l'. rewrite He. cbn [rev]. rewrite <- app_assoc. cbn [app]. repeat split; assumption.
Qed.

Definition esc_spec (s : bytes) : option bytes := esc_text (S (List.length s)) s.

(* NextToken on such text: one text token holding the unescaped text, then the end of input *)
Theorem escaped_text_is_one_token s o :
  s <> [] -> esc_spec s = Some o ->
  exists t l', nextTok (newLexer s) = Some (t, l') /\ ttype t = T_HTML /\ tlit t = o /\ rest l' = [] /\ isHTML l' = true.
Proof.
  intros Hne He. destruct s as [|c s']; [congruence|]. set (s := c :: s') in *.
  set (l := newLexer s).
  assert (Hrest : rest l = s) by reflexivity.
  assert (Hh : isHTML l = true) by reflexivity.
  (* the first character is neither NUL, nor "{{", nor a directive *)
  assert (H0 : (c =? 0) = false /\ prefixb [123; 123] s = false /\ fst (isDirectiveToken l) = false).
  { unfold esc_spec in He. subst l. subst s. cbn [esc_text] in He. set (l := newLexer (c :: s')).
    destruct (c =? 0); [discriminate He|]. split; [reflexivity|].
    destruct ((c =? 92) && prefixb [123; 123] s') eqn:E1.
    { apply andb_true_iff in E1 as [Ec _]. apply N.eqb_eq in Ec. subst c. split; [reflexivity|].
      unfold isDirectiveToken. change (cur l) with 92. reflexivity. }
    destruct ((c =? 92) && starts_directive s') eqn:E2.
    { apply andb_true_iff in E2 as [Ec _]. apply N.eqb_eq in Ec. subst c. split; [reflexivity|].
      unfold isDirectiveToken. change (cur l) with 92. reflexivity. }
    destruct (prefixb [123; 123] (c :: s')) eqn:Eb; [discriminate He|]. split; [reflexivity|].
    destruct (starts_directive (c :: s')) eqn:Ed; [discriminate He|].
    rewrite (isDirectiveToken_none l) by exact Ed. reflexivity. }
  destruct H0 as (H0 & Hb & Hd).
  destruct (readHTML_loop_esc _ s (tokenBegins l) [] o Hrest Hh He) as (l' & Hl & Hr' & Hh').
  unfold nextTok. rewrite Hrest. cbn [List.length nextToken]. rewrite Hh.
  assert (Hcur : cur l = c) by reflexivity. rewrite Hcur, H0.
  assert (Hbr : (c =? 123) && (peekChar l =? 123) = false).
  { rewrite two_braces_prefix in Hb. exact Hb. }
  rewrite Hbr. cbn [negb andb]. rewrite Hd.
  unfold readHTML. cbv zeta. change (rest (tokenBegins l)) with (rest l). rewrite Hrest, Hl.
  eexists. exists l'. split; [reflexivity|].
  unfold newToken. change (tok_eqb T_HTML T_EOF) with false. cbn [ttype tlit].
  rewrite app_nil_r, rev_involutive. repeat split; assumption.
Qed.

Theorem escaped_text_lexes_to_one_html_token s o :
  s <> [] -> esc_spec s = Some o ->
  exists t e, lex_all s = Some [t; e] /\ ttype t = T_HTML /\ tlit t = o /\ ttype e = T_EOF.
Proof.
  intros Hne Hp.
  destruct (escaped_text_is_one_token s o Hne Hp) as (t & l' & Hn & Ht & Hl & Hr & Hh).
  destruct (eof_at_end l' Hr Hh) as (e & He & Hte).
  exists t, e. unfold lex_all.
  replace (List.length s + 3)%nat with (S (S (S (List.length s)))) by lia.
  cbn [lex_loop]. rewrite Hn. rewrite Ht.
  change (tok_eqb T_HTML T_EOF) with false. change (tok_eqb T_HTML T_ILLEGAL) with false. cbn [andb].
  rewrite He, Hte. change (tok_eqb T_EOF T_EOF) with true. cbv iota.
  repeat split; assumption.
Qed.

(* the whole pipeline: the render is the unescaped text, which is what the specification's
   reference scanner says, whatever the (valid) data *)
Theorem escaped_text_renders_unescaped cx s o data en :
  esc_spec s = Some o -> env_from_map data = EnvOk en ->
  text_spec s = TOut o /\ evaluate_string cx s data = RenderOk o.
Proof.
  intros Hp He. split; [apply esc_text_scan, Hp|].
  destruct s as [|c s'].
  - cbn in Hp. injection Hp as <-. unfold evaluate_string.
    assert (Hparse : parse_source [] = ParsedOk (mkProgram [] None [] [] [])) by (vm_compute; reflexivity).
    rewrite Hparse. unfold render_program. rewrite He. reflexivity.
  - set (s := c :: s') in *.
    destruct (escaped_text_lexes_to_one_html_token s o ltac:(discriminate) Hp) as (t & e & Hl & Ht & Hlit & Hte).
    unfold evaluate_string, parse_source. rewrite Hl. rewrite (parse_one_html t e Ht Hte).
    unfold render_program. rewrite He. cbn [p_stmts]. rewrite Hlit.
    unfold eval_fuel. change 5000%nat with (S (S 4998)). cbn [eval_program eval_stmt str_of value_string fst snd app].
    change 4998%nat with (S 4997). cbn [eval_program]. reflexivity.
Qed.

(* non-vacuity *)
Example escapes_example :
  esc_spec (bs "a \{{ x }} b \@if(c) \\ \x @ me {") = Some (bs "a {{ x }} b @if(c) \\ \x @ me {") /\
  esc_spec (bs "\@endif \@end") = Some (bs "@endif @end") /\
  esc_spec (bs "{{ 1 }}") = None.
Proof. vm_compute. repeat split. Qed.
