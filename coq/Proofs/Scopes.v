(* C04: the scope chain of object/env.go as modelled in Model/Eval.v.
   - Env.Set writes the innermost frame only, refuses 'loop', keeps every visible name's type;
   - the type of every visible name is stable under any sequence of successful assignments. *)
From Coq Require Import String.
From TW Require Import Bytes Values Eval.
Open Scope N_scope.

Lemma env_set_outer_unchanged e k v e' :
  env_set e k v = inl e' -> tl e' = tl e.
Proof.
  unfold env_set. destruct (bytes_eqb k str_loop); [discriminate|].
  destruct (env_get e k) as [old|].
  - destruct (negb (same_type old v)); [discriminate|].
    intros H; inversion H; subst. destruct e; reflexivity.
  - intros H; inversion H; subst. destruct e; reflexivity.
Qed.

Lemma env_set_loop_reserved e v : exists msg, env_set e str_loop v = inr msg.
Proof. unfold env_set. rewrite bytes_eqb_refl. eexists; reflexivity. Qed.

Lemma alookup_aset_same {A} k (v : A) m : alookup k (aset k v m) = Some v.
Proof.
  induction m as [|[k' v'] m IH]; simpl.
  - rewrite bytes_eqb_refl. reflexivity.
  - destruct (bytes_eqb k k') eqn:E; simpl.
    + rewrite bytes_eqb_refl. reflexivity.
    + rewrite E. exact IH.
Qed.

Lemma alookup_aset_other {A} k k2 (v : A) m :
  bytes_eqb k2 k = false -> alookup k2 (aset k v m) = alookup k2 m.
Proof.
  intros H. induction m as [|[k' v'] m IH]; simpl.
  - rewrite H. reflexivity.
  - destruct (bytes_eqb k k') eqn:E; simpl.
    + apply bytes_eqb_eq in E; subst. rewrite H. reflexivity.
    + destruct (bytes_eqb k2 k'); [reflexivity | exact IH].
Qed.

(* after a successful assignment the name is bound to the value, visible from the innermost scope *)
Lemma env_set_get_same e k v e' :
  e <> [] -> env_set e k v = inl e' -> env_get e' k = Some v.
Proof.
  intros Hne. unfold env_set. destruct (bytes_eqb k str_loop); [discriminate|].
  assert (G : forall f r, env_get (aset k v f :: r) k = Some v).
  { intros f r. simpl. rewrite alookup_aset_same. reflexivity. }
  destruct (env_get e k) as [old|].
  - destruct (negb (same_type old v)); [discriminate|].
    intros H; inversion H; subst. destruct e as [|f r]; [congruence|]. apply G.
  - intros H; inversion H; subst. destruct e as [|f r]; [congruence|]. apply G.
Qed.

(* every other name keeps its binding *)
Lemma env_set_get_other e k v e' k2 :
  e <> [] -> bytes_eqb k2 k = false -> env_set e k v = inl e' -> env_get e' k2 = env_get e k2.
Proof.
  intros Hne Hk. unfold env_set. destruct (bytes_eqb k str_loop); [discriminate|].
  assert (G : forall f r, env_get (aset k v f :: r) k2 = env_get (f :: r) k2).
  { intros f r. simpl. rewrite (alookup_aset_other k k2 v f Hk). reflexivity. }
  destruct (env_get e k) as [old|].
  - destruct (negb (same_type old v)); [discriminate|].
    intros H; inversion H; subst. destruct e as [|f r]; [congruence|]. apply G.
  - intros H; inversion H; subst. destruct e as [|f r]; [congruence|]. apply G.
Qed.

(* a successful assignment never changes the type of a visible name *)
Lemma env_set_type_stable e k v e' old :
  env_get e k = Some old -> env_set e k v = inl e' -> same_type old v = true.
Proof.
  intros Hg. unfold env_set. destruct (bytes_eqb k str_loop); [discriminate|].
  rewrite Hg. destruct (same_type old v); [reflexivity | discriminate].
Qed.

Lemma same_type_trans a b c : same_type a b = true -> same_type b c = true -> same_type a c = true.
Proof.
  unfold same_type. intros H1 H2. apply bytes_eqb_eq in H1. apply bytes_eqb_eq in H2.
  apply bytes_eqb_eq. congruence.
Qed.

Lemma same_type_refl a : same_type a a = true.
Proof. apply bytes_eqb_refl. Qed.

(* operation sequences on one scope chain: successful assignments only *)
Fixpoint set_all (e : env) (ops : list (bytes * value)) : option env :=
  match ops with
  | [] => Some e
  | (k, v) :: ops' => match env_set e k v with inl e' => set_all e' ops' | inr _ => None end
  end.

Lemma env_set_nonempty e k v e' : env_set e k v = inl e' -> e' <> [].
Proof.
  unfold env_set. destruct (bytes_eqb k str_loop); [discriminate|].
  destruct (env_get e k) as [old|]; [destruct (negb (same_type old v)); [discriminate|]|];
    intros H; inversion H; subst; destruct e; discriminate.
Qed.

Theorem types_stable_under_assignments ops : forall e e' k old,
  e <> [] -> env_get e k = Some old -> set_all e ops = Some e' ->
  exists now, env_get e' k = Some now /\ same_type old now = true.
Proof.
  induction ops as [|[k0 v0] ops IH]; intros e e' k old Hne Hg Hs; simpl in Hs.
  - inversion Hs; subst. exists old. split; [exact Hg | apply same_type_refl].
  - destruct (env_set e k0 v0) as [e1|msg] eqn:E; [|discriminate].
    destruct (bytes_eqb k k0) eqn:Ek.
    + apply bytes_eqb_eq in Ek; subst k0.
      pose proof (env_set_type_stable e k v0 e1 old Hg E) as T.
      pose proof (env_set_get_same e k v0 e1 Hne E) as G.
      destruct (IH e1 e' k v0 (env_set_nonempty _ _ _ _ E) G Hs) as (now & Hn & Tn).
      exists now. split; [exact Hn | eapply same_type_trans; eassumption].
    + pose proof (env_set_get_other e k0 v0 e1 k Hne Ek E) as G. rewrite Hg in G.
      exact (IH e1 e' k old (env_set_nonempty _ _ _ _ E) G Hs).
Qed.

(* all outer frames are untouched by any sequence of assignments *)
Theorem outer_frames_untouched ops : forall e e',
  set_all e ops = Some e' -> tl e' = tl e.
Proof.
  induction ops as [|[k v] ops IH]; intros e e' H; simpl in H.
  - inversion H; reflexivity.
  - destruct (env_set e k v) as [e1|] eqn:E; [|discriminate].
    rewrite (IH _ _ H). exact (env_set_outer_unchanged _ _ _ _ E).
Qed.

(* 'loop' can never be assigned, whatever the scope chain *)
Theorem loop_never_assignable e v ops e' :
  set_all e ((str_loop, v) :: ops) = Some e' -> False.
Proof. cbn [set_all]. destruct (env_set_loop_reserved e v) as [msg ->]. discriminate. Qed.

(* non-vacuity *)
Example scopes_example :
  let e := [[(bs "x", VInt 1)]; [(bs "y", VStr [])]] in
  set_all e [(bs "x", VInt 5); (bs "z", VBool true)] = Some [[(bs "x", VInt 5); (bs "z", VBool true)]; [(bs "y", VStr [])]]
  /\ set_all e [(bs "y", VInt 2)] = None.
Proof. vm_compute. split; reflexivity. Qed.
