(* C06 / C07: layouts (reserves filled by inserts) and components (own arguments, own slots),
   on the loader model (Model/Api.v: applyLayoutToProgram, applyComponentToProgram, ApplyInserts,
   ApplyComponent) and the evaluator model (evalUseStmt, evalReserveStmt, evalComponentStmt,
   evalSlotStmt). *)
From Coq Require Import String Lia.
From TW Require Import Bytes GenToken Lexer Ast Parser Values Builtins Eval Render Api Scopes ScopesEval.
Open Scope N_scope.

(* ================= C06 ================= *)

(* a page that declares @use(L) loads to ONE statement: the layout's program; nothing of the
   page's own text survives (only its inserts, attached to the layout's reserves) *)
Theorem page_with_layout_is_the_layout fs cfg rel p uln lname ss isl :
  parse_file fs rel = LOk (PProg p) -> p_use p = Some (uln, lname) ->
  load_page fs cfg rel = LOk (ss, isl) ->
  exists hu lstmts, ss = [SUse uln lname (Some (true, hu, lstmts))].
Proof.
  intros Hp Hu. unfold load_page. rewrite Hp. cbv beta iota. rewrite Hu. cbv beta iota.
  destruct (parse_file fs (rel_of cfg lname)) as [[lp|e|ne msg]| | |]; cbv beta iota.
  2-6: intro H; discriminate H.
  destruct (undefined_insert (asort (p_inserts p)) (p_reserves lp)); cbv beta iota; [intro H; discriminate H|].
  destruct (resolve_components fs cfg (abs_path rel) (p_components p)); cbv beta iota.
  2-4: intro H; discriminate H.
  intro H.
  apply (f_equal (fun r : load_result (list stmt * bool) => match r with LOk (a, _) => a | _ => [] end)) in H.
  cbv beta iota in H. eexists. eexists. symmetry. exact H.
Qed.

(* an insert that names no reserve of the layout is a load error at the insert's line, in the page's file *)
Theorem undefined_insert_is_a_load_error fs cfg rel p uln lname lp i :
  parse_file fs rel = LOk (PProg p) -> p_use p = Some (uln, lname) ->
  parse_file fs (rel_of cfg lname) = LOk (PProg lp) ->
  undefined_insert (asort (p_inserts p)) (p_reserves lp) = Some i ->
  load_page fs cfg rel = LErr (mkErr (ins_ln i) (abs_path rel) (fmt ErrUndefinedInsert [ins_name i])).
Proof. intros Hp Hu Hl Hi. unfold load_page. rewrite Hp, Hu, Hl, Hi. reflexivity. Qed.

(* a missing layout file is a load error at the @use line *)
Theorem missing_layout_is_a_load_error fs cfg rel p uln lname ne msg :
  parse_file fs rel = LOk (PProg p) -> p_use p = Some (uln, lname) ->
  parse_file fs (rel_of cfg lname) = LOk (PReadErr ne msg) ->
  load_page fs cfg rel = LErr (mkErr uln (abs_path (rel_of cfg lname)) msg).
Proof. intros Hp Hu Hl. unfold load_page. rewrite Hp, Hu, Hl. reflexivity. Qed.

(* a layout that itself uses a layout is an error when the page is rendered *)
Theorem layout_using_a_layout_fails cx f en uln lname lstmts :
  eval_stmt cx (S f) en (SUse uln lname (Some (true, true, lstmts))) = Fail uln (fmt ErrUseStmtNotAllowed []).
Proof. reflexivity. Qed.

(* rendering the page is rendering the layout's statements *)
Theorem use_renders_the_layout cx f en uln lname lstmts :
  eval_stmt cx (S f) en (SUse uln lname (Some (true, false, lstmts))) =
  (let! r := eval_program cx f en lstmts [] in Ok (VUse (VHtml (fst r)), snd r)).
Proof. reflexivity. Qed.

(* a reserve filled by a block insert shows exactly what the insert's body renders, evaluated in
   place with the data of the call; by the expression form, the value of the expression; an
   unfilled reserve shows nothing *)
Theorem reserve_filled_by_block cx f en ln rid n iln arg b :
  eval_stmt cx (S f) en (SReserve ln rid n (Some (iln, arg, Some b))) =
  (let! r := eval_block cx f en b [] in Ok (VReserve (fst r) None, snd r)) /\
  (forall v, value_string (VReserve v None) = value_string v).
Proof. split; reflexivity. Qed.

Theorem reserve_filled_by_expression cx f en ln rid n iln arg :
  arg <> ENull ->
  eval_stmt cx (S f) en (SReserve ln rid n (Some (iln, arg, None))) =
  (let! v := eval_expr cx f en arg in Ok (VReserve VNil (Some v), en)) /\
  (forall v, value_string (VReserve VNil (Some v)) = value_string v).
Proof. intro H. split; [|reflexivity]. cbn [eval_stmt]. destruct arg; try reflexivity. congruence. Qed.

Theorem unfilled_reserve_shows_nothing cx f en ln rid n :
  eval_stmt cx (S f) en (SReserve ln rid n None) = Ok (VNil, en) /\ value_string VNil = Some [].
Proof. split; reflexivity. Qed.

(* reserves are filled wherever they stand: the rewriting descends into @if / @each / @for bodies *)
Theorem inserts_reach_reserves_inside_blocks cb ri f ln c thn alts alt :
  rw_stmt cb ri (S f) (SIf ln c thn alts alt) =
  SIf ln c (map (rw_stmt cb ri f) thn) (map (fun ab => (fst ab, map (rw_stmt cb ri f) (snd ab))) alts)
      (match alt with Some b => Some (map (rw_stmt cb ri f) b) | None => None end).
Proof. reflexivity. Qed.

Theorem insert_attached_to_its_reserve cb ri f ln rid n old iln arg body :
  ri rid = Some (iln, arg, body) ->
  rw_stmt cb ri (S f) (SReserve ln rid n old) = SReserve ln rid n (Some (iln, arg, body)).
Proof. intro H. cbn [rw_stmt]. rewrite H. reflexivity. Qed.

(* '~name' in @use / @component means 'layouts/name' / 'components/name' *)
Theorem alias_path st name dir :
  tlit (curT st) = 126 :: name -> aliasPath st dir = (dir ++ [47] ++ name, st).
Proof. intro H. unfold aliasPath. rewrite H. reflexivity. Qed.

(* ================= C07 ================= *)

(* every use of a component is resolved on its own: the block attached to one use is computed from
   the component file and THAT use's slots only *)
Theorem component_uses_are_independent fs cfg page_abs c rest :
  resolve_components fs cfg page_abs (c :: rest) =
  (let? a := resolve_components fs cfg page_abs [c] in
   let? b := resolve_components fs cfg page_abs rest in LOk (a ++ b)).
Proof.
  destruct c as [[[cid cline] name] slots]. cbn [resolve_components].
  destruct (parse_file fs (rel_of cfg name)) as [[cp|e|[|] msg]| | |]; try reflexivity.
  all: destruct (apply_component page_abs cline name slots cp _) as [ss| | |]; try reflexivity.
  all: destruct (resolve_components fs cfg page_abs rest); reflexivity.
Qed.

(* two uses of one component with the same slots get the same block, whatever stands between them *)
Theorem same_use_same_block fs cfg page_abs cid1 cid2 cl name slots r1 r2 :
  resolve_components fs cfg page_abs [(cid1, cl, name, slots)] = LOk r1 ->
  resolve_components fs cfg page_abs [(cid2, cl, name, slots)] = LOk r2 ->
  map snd r1 = map snd r2.
Proof.
  cbn [resolve_components].
  destruct (parse_file fs (rel_of cfg name)) as [[cp|e|[|] msg]| | |]; try discriminate.
  destruct (apply_component page_abs cl name slots cp _) as [ss| | |]; try discriminate.
  intros [= <-] [= <-]. reflexivity.
Qed.

(* a missing component file is a load error that names the component, at the line of the use *)
Theorem missing_component_is_a_load_error fs cfg page_abs cid cline name slots rest msg :
  parse_file fs (rel_of cfg name) = LOk (PReadErr true msg) ->
  resolve_components fs cfg page_abs ((cid, cline, name, slots) :: rest) =
  LErr (mkErr cline page_abs (fmt ErrUndefinedComponent [name])).
Proof. intro H. cbn [resolve_components]. rewrite H. reflexivity. Qed.

(* slot bodies: the body goes to the first top-level @slot of that name; everything else stays *)
Theorem slot_body_goes_to_its_placeholder ss n b ss' :
  set_slot_body ss n b = Some ss' ->
  exists pre ln old post, ss = pre ++ SSlot ln n old :: post /\ ss' = pre ++ SSlot ln n (Some b) :: post.
Proof.
  revert ss'; induction ss as [|s ss IH]; intros ss' H; [discriminate|].
  cbn [set_slot_body] in H.
  destruct s; try (destruct (set_slot_body ss n b) as [r|] eqn:E; [|discriminate]; inversion H; subst ss';
                   destruct (IH r eq_refl) as (pre & ln' & old & post & -> & ->);
                   eexists (_ :: pre), ln', old, post; split; reflexivity).
  destruct (bytes_eqb name n) eqn:En.
  - apply bytes_eqb_eq in En. subst name. inversion H; subst ss'. exists [], ln, body, ss. split; reflexivity.
  - destruct (set_slot_body ss n b) as [r|] eqn:E; [|discriminate]. inversion H; subst ss'.
    destruct (IH r eq_refl) as (pre & ln' & old & post & -> & ->).
    eexists (_ :: pre), ln', old, post. split; reflexivity.
Qed.

(* a slot the component does not declare is a load error naming slot and component *)
Theorem undeclared_slot_is_a_load_error page_abs cline name sln sn body cprog cl :
  sn <> [] -> set_slot_body (p_stmts cprog) sn body = None ->
  apply_component page_abs cline name [(sln, sn, body)] cprog cl =
  LErr (mkErr cl page_abs (fmt ErrSlotNotDefined [sn; name])).
Proof.
  intros Hn Hs. unfold apply_component, find_duplicate_slot, count_name. cbn [filter fst snd].
  rewrite bytes_eqb_refl. cbn [List.length Nat.ltb Nat.leb]. rewrite Hs. destruct sn; [congruence|reflexivity].
Qed.

(* a slot passed twice is a load error *)
Theorem duplicate_slot_is_a_load_error page_abs cline name l1 l2 sn b1 b2 cprog cl :
  name <> [] ->
  apply_component page_abs cline name [(l1, sn, b1); (l2, sn, b2)] cprog cl =
  LErr (mkErr cl page_abs (fmt ErrDuplicateSlotUsage [sn; nat_to_dec 2; name])).
Proof.
  intro Hn. unfold apply_component, find_duplicate_slot, count_name. cbn [filter fst snd].
  rewrite !bytes_eqb_refl. cbn [List.length Nat.ltb Nat.leb]. destruct name; [congruence|reflexivity].
Qed.

(* rendering a use: the arguments are evaluated in the CALLER's scope (the place of use), bound in a
   fresh scope on top of it (surrounding variables stay visible), the component's program is
   rendered there, and the caller's scope chain is what it was *)
Theorem component_use_renders cx f en ln cid name l1 pairs slots ss :
  eval_stmt cx (S f) en (SComponent ln cid name (Some (EObj l1 pairs)) slots (Some ss)) =
  (let! en1 := bind_args cx f ln en (asort pairs) ([] :: en) in
   let! r := eval_program cx f en1 ss [] in
   Ok (VComponent (VHtml (fst r)), tl (snd r))).
Proof. reflexivity. Qed.

(* when the arguments can be bound, EVERY one of them is: each key (keys are distinct) is visible
   in the component's scope with the value its expression has at the place of use, and every other
   name keeps the binding it had there *)
Lemma bind_args_binds cx f ln en ps : forall ne ne',
  ne <> [] -> NoDup (map fst ps) -> bind_args cx f ln en ps ne = Ok ne' ->
  (forall k x, In (k, x) ps -> exists v, eval_expr cx f en x = Ok v /\ env_get ne' k = Some v) /\
  (forall k2, ~ In k2 (map fst ps) -> env_get ne' k2 = env_get ne k2).
Proof.
  induction ps as [|[k x] ps IH]; intros ne ne' Hne Hnd H; cbn [bind_args] in H.
  - inversion H; subst. split; [intros k x []|reflexivity].
  - destruct (eval_expr cx f en x) as [v| | | |] eqn:Ev; try discriminate.
    destruct (env_set ne k v) as [ne1|msg] eqn:Es; [|discriminate].
    inversion Hnd as [|? ? Hnk Hnd']; subst.
    pose proof (Scopes.env_set_nonempty ne k v ne1 Es) as Hne1.
    destruct (IH ne1 ne' Hne1 Hnd' H) as [A B]. split.
    + intros k0 x0 [E|I].
      * inversion E; subst k0 x0. exists v. split; [exact Ev|].
        rewrite (B k Hnk). exact (Scopes.env_set_get_same ne k v ne1 Hne Es).
      * exact (A k0 x0 I).
    + intros k2 Hk2. cbn [map fst] in Hk2.
      rewrite B by (intro I; apply Hk2; right; exact I).
      apply (Scopes.env_set_get_other ne k v ne1 k2 Hne); [|exact Es].
      destruct (bytes_eqb k2 k) eqn:E; [|reflexivity]. apply bytes_eqb_eq in E. subst k2.
      exfalso. apply Hk2. left. reflexivity.
Qed.

(* an argument that cannot be bound - its name is visible at the place of use with a value of
   another type, or is the reserved name loop - fails the render at the component's line; it is
   never skipped silently *)
Lemma bind_args_refusal cx f ln en k x ps ne v msg :
  eval_expr cx f en x = Ok v -> env_set ne k v = inr msg ->
  bind_args cx f ln en ((k, x) :: ps) ne = Fail ln msg.
Proof. intros Ev Es. cbn [bind_args]. rewrite Ev, Es. reflexivity. Qed.

Theorem component_argument_that_cannot_be_bound_fails cx f en ln cid name l1 k x slots ss v msg :
  eval_expr cx f en x = Ok v -> env_set ([] :: en) k v = inr msg ->
  eval_stmt cx (S f) en (SComponent ln cid name (Some (EObj l1 [(k, x)])) slots (Some ss)) = Fail ln msg.
Proof.
  intros Ev Es. rewrite component_use_renders. cbn [asort]. 
  change (asort [(k, x)]) with [(k, x)].
  rewrite (bind_args_refusal cx f ln en k x [] ([] :: en) v msg Ev Es). reflexivity.
Qed.

(* a slot placeholder shows the body the caller passed, or nothing *)
Theorem slot_shows_the_passed_body cx f en ln n b :
  eval_stmt cx (S f) en (SSlot ln n (Some b)) =
  (let! r := eval_block cx f en b [] in Ok (VSlot (fst r), snd r)) /\
  eval_stmt cx (S f) en (SSlot ln n None) = Ok (VSlot VNil, en) /\
  (forall v, value_string (VSlot v) = value_string v) /\ value_string (VSlot VNil) = Some [].
Proof. repeat split. Qed.
