(* C13: which line (and path) an error carries.  Every AST node of the model keeps [ln], the
   1-based line on which its token ENDS (Parser.eline t = S (tel t); tel is the end line the lexer
   gave the token, tied to the position function by C19); the evaluator reports the [ln] of the
   designated node of the faulty construct and every enclosing construct passes the error on
   unchanged. *)
From Coq Require Import String.
From TW Require Import Bytes GenToken Lexer Ast Parser Values Builtins Eval Render Api.
Open Scope N_scope.

(* ---- where the line of a node comes from *)
Theorem node_line_is_token_end_line t : eline t = S (tel t).
Proof. reflexivity. Qed.

Theorem identifier_node_keeps_its_token_line f st :
  parsePrefix (S f) PK_Ident st = POk (EIdent (eline (curT st)) (tlit (curT st))) st.
Proof. reflexivity. Qed.

(* an unexpected token: the error carries the line of the PEEKED token, the one that is wrong *)
Theorem unexpected_token_line st t a b :
  peekIs st t = false -> tokenString t = Some a -> tokenString (ttype (peekT st)) = Some b ->
  expectPeek st t = (false, addErr st (eline (peekT st)) (fmt ErrWrongNextToken [a; b])).
Proof. intros H Ha Hb. unfold expectPeek. rewrite H, Ha, Hb. reflexivity. Qed.

(* ---- evaluation faults: the designated token of each kind *)
Theorem undefined_identifier_line cx f en ln n :
  env_get en n = None ->
  eval_expr cx (S f) en (EIdent ln n) = Fail ln (fmt ErrIdentifierNotFound [n]).
Proof. intro H. cbn [eval_expr]. rewrite H. reflexivity. Qed.

(* mistyped operands: the line of the LEFT operand *)
Theorem mistyped_operands_line cx f en ln op l r lv rv ll :
  eval_expr cx f en l = Ok lv -> eval_expr cx f en r = Ok rv -> expr_line l = Some ll ->
  same_type lv rv = false ->
  eval_expr cx (S f) en (EInfix ln op l r) = Fail ll (fmt ErrTypeMismatch [type_name lv; op; type_name rv]).
Proof.
  intros Hl Hr Hll Ht. cbn [eval_expr]. rewrite Hl, Hr, Hll. cbv beta iota.
  unfold eval_infix_op. rewrite Ht. reflexivity.
Qed.

Theorem division_by_zero_line cx f en ln l r a ll :
  eval_expr cx f en l = Ok (VInt a) -> eval_expr cx f en r = Ok (VInt 0) -> expr_line l = Some ll ->
  eval_expr cx (S f) en (EInfix ln (bs "/") l r) = Fail ll (fmt ErrDivisionByZero []) /\
  eval_expr cx (S f) en (EInfix ln (bs "%") l r) = Fail ll (fmt ErrDivisionByZero []).
Proof. intros Hl Hr Hll. split; cbn [eval_expr]; rewrite Hl, Hr, Hll; reflexivity. Qed.

(* unknown function: the line of the function name *)
Theorem unknown_function_line cx f en ln recv fname args rv avs :
  eval_expr cx f en recv = Ok rv -> has_func_table rv = true ->
  eval_exprs cx f en args = Ok avs ->
  call_builtin fname rv avs = None -> lookup_custom cx (type_name rv) fname = None ->
  eval_expr cx (S f) en (ECall ln recv fname args) = Fail ln (fmt ErrNoFuncForThisType [fname; type_name rv]).
Proof.
  intros Hr Ht Ha Hb Hc. cbn [eval_expr]. rewrite Hr. cbv beta iota. rewrite Ht. cbn [negb].
  rewrite Ha. cbv beta iota. rewrite Hb, Hc. reflexivity.
Qed.

(* unknown property: the dot (dot form), the index expression (bracket form) *)
Theorem unknown_property_line_dot cx f en ln l kln k m :
  eval_expr cx f en l = Ok (VObj m) -> alookup k m = None -> alookup (upper_first k) m = None ->
  eval_expr cx (S f) en (EDot ln l (EIdent kln k)) = Fail ln (fmt ErrPropertyNotFound [k; bs "OBJECT"]).
Proof.
  intros Hl H1 H2. cbn [eval_expr]. rewrite Hl. cbv beta iota. unfold obj_index. rewrite H1.
  destruct k; [reflexivity|]. rewrite H2. reflexivity.
Qed.

Theorem unknown_property_line_bracket cx f en ln l i k m il :
  eval_expr cx f en l = Ok (VObj m) -> eval_expr cx f en i = Ok (VStr k) -> expr_line i = Some il ->
  alookup k m = None -> alookup (upper_first k) m = None ->
  eval_expr cx (S f) en (EIndex ln l i) = Fail il (fmt ErrPropertyNotFound [k; bs "OBJECT"]).
Proof.
  intros Hl Hi Hil H1 H2. cbn [eval_expr]. rewrite Hl, Hi, Hil. cbv beta iota. unfold obj_index. rewrite H1.
  destruct k; [reflexivity|]. rewrite H2. reflexivity.
Qed.

(* ---- every enclosing construct passes an error on with its line unchanged *)
Theorem error_passes_through_program cx f en s ss out ln msg :
  eval_stmt cx f en s = Fail ln msg -> eval_program cx (S f) en (s :: ss) out = Fail ln msg.
Proof. intro H. cbn [eval_program]. rewrite H. reflexivity. Qed.

Theorem error_passes_through_block cx f en s ss acc ln msg :
  eval_stmt cx f en s = Fail ln msg -> eval_block cx (S f) en (s :: ss) acc = Fail ln msg.
Proof. intro H. cbn [eval_block]. rewrite H. reflexivity. Qed.

Theorem error_passes_through_if cx f en ln0 c thn alts alt cv ln msg :
  eval_expr cx f en c = Ok cv -> truthy cv = true ->
  eval_block cx f ([] :: en) thn [] = Fail ln msg ->
  eval_stmt cx (S f) en (SIf ln0 c thn alts alt) = Fail ln msg.
Proof. intros Hc Ht Hb. cbn [eval_stmt]. rewrite Hc. cbv beta iota. rewrite Ht, Hb. reflexivity. Qed.

Theorem error_in_condition_passes_through_if cx f en ln0 c thn alts alt ln msg :
  eval_expr cx f en c = Fail ln msg -> eval_stmt cx (S f) en (SIf ln0 c thn alts alt) = Fail ln msg.
Proof. intro Hc. cbn [eval_stmt]. rewrite Hc. reflexivity. Qed.

Theorem error_passes_through_each_pass cx f ln0 var body len i x xs en out en1 ln msg :
  env_set en var x = inl en1 ->
  eval_block cx f (env_set_loop en1 i len) body [] = Fail ln msg ->
  each_loop cx (S f) ln0 var body len i (x :: xs) en out = Fail ln msg.
Proof. intros He Hb. cbn [each_loop]. rewrite He, Hb. reflexivity. Qed.

Theorem error_passes_through_operands cx f en ln0 op l r ln msg :
  eval_expr cx f en l = Fail ln msg -> eval_expr cx (S f) en (EInfix ln0 op l r) = Fail ln msg.
Proof. intro H. cbn [eval_expr]. rewrite H. reflexivity. Qed.

Theorem render_reports_the_line cx p data en ln msg :
  env_from_map data = EnvOk en -> eval_program cx eval_fuel en (p_stmts p) [] = Fail ln msg ->
  render_program cx p data = RenderErr ln msg.
Proof. intros He Hp. unfold render_program. rewrite He, Hp. reflexivity. Qed.

(* ---- the path: a failing render of a loaded template names that template's file *)
Theorem template_error_names_its_file cx cfg tpl name data en ss ln msg :
  env_from_map data = EnvOk en -> alookup name tpl = Some ss ->
  eval_program cx eval_fuel en ss [] = Fail ln msg ->
  template_string cx cfg tpl name data = StrErr (mkErr ln (template_path cfg name) msg).
Proof. intros He Hn Hp. unfold template_string. rewrite He, Hn, Hp. reflexivity. Qed.

(* a syntax error found while loading names the file being parsed, with the parser's line *)
Theorem load_error_names_the_parsed_file fs rel content ln msg rest :
  read_file fs rel = ReadOk content -> parse_source content = ParseErrors ((ln, msg) :: rest) ->
  parse_file fs rel = LOk (PFail (mkErr ln (abs_path rel) msg)).
Proof. intros Hr Hp. unfold parse_file. rewrite Hr, Hp. reflexivity. Qed.
