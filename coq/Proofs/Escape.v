(* C10: the specification escaper (Spec/Expr.esc_spec) has the properties the property
   text lists, and the model's evalString (html.EscapeString followed by the restoration of
   the two quote entities) computes exactly it. *)
From Coq Require Import String.
From TW Require Import Bytes Values Builtins Expr.
Open Scope N_scope.

(* ---- properties of the specification escaper *)
Definition esc1 (c : N) : bytes :=
  if c =? 38 then bs "&amp;" else if c =? 60 then bs "&lt;" else if c =? 62 then bs "&gt;" else [c].

Lemma esc_spec_cons c s : esc_spec (c :: s) = esc1 c ++ esc_spec s.
Proof. reflexivity. Qed.

Lemma esc1_no_angle c x : In x (esc1 c) -> x <> 60 /\ x <> 62.
Proof.
  unfold esc1. destruct (c =? 38) eqn:E1; [|destruct (c =? 60) eqn:E2; [|destruct (c =? 62) eqn:E3]].
  - vm_compute. intros H. repeat (destruct H as [<-|H]; [split; discriminate|]). destruct H.
  - vm_compute. intros H. repeat (destruct H as [<-|H]; [split; discriminate|]). destruct H.
  - vm_compute. intros H. repeat (destruct H as [<-|H]; [split; discriminate|]). destruct H.
  - intros [<-|[]]. apply N.eqb_neq in E2. apply N.eqb_neq in E3. split; assumption.
Qed.

Theorem esc_no_angle s x : In x (esc_spec s) -> x <> 60 /\ x <> 62.
Proof.
  induction s as [|c s IH]; [intros []|].
  rewrite esc_spec_cons. intros H. apply in_app_or in H as [H|H]; [exact (esc1_no_angle c x H) | exact (IH H)].
Qed.

(* quotes stay as written *)
Definition is_quote (c : N) : bool := (c =? 34) || (c =? 39).

Lemma esc1_quotes c : filter is_quote (esc1 c) = filter is_quote [c].
Proof.
  unfold esc1. destruct (c =? 38) eqn:E1; [|destruct (c =? 60) eqn:E2; [|destruct (c =? 62) eqn:E3]];
    try reflexivity.
  - apply N.eqb_eq in E1; subst; reflexivity.
  - apply N.eqb_eq in E2; subst; reflexivity.
  - apply N.eqb_eq in E3; subst; reflexivity.
Qed.

Theorem esc_quotes_kept s : filter is_quote (esc_spec s) = filter is_quote s.
Proof.
  induction s as [|c s IH]; [reflexivity|].
  rewrite esc_spec_cons, filter_app, esc1_quotes, IH.
  change (c :: s) with ([c] ++ s). rewrite filter_app. reflexivity.
Qed.

(* every '&' of the output starts one of the three entities *)
Fixpoint amp_ok (s : bytes) : bool :=
  match s with
  | [] => true
  | c :: s' =>
    (negb (c =? 38) || prefixb (bs "&amp;") s || prefixb (bs "&lt;") s || prefixb (bs "&gt;") s) && amp_ok s'
  end.

Lemma amp_ok_esc1_app c t : amp_ok t = true -> amp_ok (esc1 c ++ t) = true.
Proof.
  intros Ht. unfold esc1.
  destruct (c =? 38) eqn:E1; [|destruct (c =? 60) eqn:E2; [|destruct (c =? 62) eqn:E3]].
  - cbn. exact Ht.
  - cbn. exact Ht.
  - cbn. exact Ht.
  - cbn [app amp_ok]. rewrite E1. cbn. exact Ht.
Qed.

Theorem esc_amp_entities s : amp_ok (esc_spec s) = true.
Proof.
  induction s as [|c s IH]; [reflexivity|]. rewrite esc_spec_cons. apply amp_ok_esc1_app. exact IH.
Qed.

(* unescaping the output gives back the literal, byte for byte *)
Lemma skipn_app_len {A} (e rest : list A) : skipn (List.length e) (e ++ rest) = rest.
Proof. induction e as [|x e IH]; [reflexivity | exact IH]. Qed.

Lemma unescape_entity fuel e r rest :
  hd 0 e = 38 -> find_entity entities (e ++ rest) = Some (r, List.length e) ->
  unescape_fuel (S fuel) (e ++ rest) =
  match unescape_fuel fuel rest with Some t => Some (r ++ t) | None => None end.
Proof.
  intros Hh Hf. destruct e as [|c e]; [discriminate|]. cbn [hd] in Hh. subst c.
  cbn [unescape_fuel app]. cbn [N.eqb Pos.eqb].
  change (38 :: e ++ rest) with ((38 :: e) ++ rest). rewrite Hf, skipn_app_len. reflexivity.
Qed.

Lemma unescape_esc_fuel s : forall fuel,
  (List.length (esc_spec s) < fuel)%nat -> unescape_fuel fuel (esc_spec s) = Some s.
Proof.
  induction s as [|c s IH]; intros fuel Hf.
  - destruct fuel; [inversion Hf | reflexivity].
  - rewrite esc_spec_cons in *. rewrite app_length in Hf.
    destruct fuel as [|fuel]; [inversion Hf|].
    unfold esc1 in *.
    destruct (c =? 38) eqn:E1; [|destruct (c =? 60) eqn:E2; [|destruct (c =? 62) eqn:E3]].
    + apply N.eqb_eq in E1; subst c. cbn [List.length bs] in Hf. simpl List.length in Hf.
      rewrite (unescape_entity fuel (bs "&amp;") [38] (esc_spec s) eq_refl eq_refl).
      rewrite IH by lia. reflexivity.
    + apply N.eqb_eq in E2; subst c. simpl List.length in Hf.
      rewrite (unescape_entity fuel (bs "&lt;") [60] (esc_spec s) eq_refl eq_refl).
      rewrite IH by lia. reflexivity.
    + apply N.eqb_eq in E3; subst c. simpl List.length in Hf.
      rewrite (unescape_entity fuel (bs "&gt;") [62] (esc_spec s) eq_refl eq_refl).
      rewrite IH by lia. reflexivity.
    + cbn [app unescape_fuel]. rewrite E1. simpl List.length in Hf. rewrite IH by lia. reflexivity.
Qed.

Theorem unescape_esc s : unescape (esc_spec s) = Some s.
Proof. unfold unescape. apply unescape_esc_fuel. lia. Qed.

(* ---- the model's evalString equals the specification escaper *)

(* old and v differ at a position both have: then old is no prefix of v ++ anything *)
Fixpoint mismatch (old v : bytes) : bool :=
  match old, v with
  | a :: old', b :: v' => negb (a =? b) || mismatch old' v'
  | _, _ => false
  end.

Lemma mismatch_no_prefix old v rest : mismatch old v = true -> prefixb old (v ++ rest) = false.
Proof.
  revert v; induction old as [|a old IH]; intros [|b v] H; simpl in *; try discriminate.
  destruct (a =? b); simpl in *; [apply IH; exact H | reflexivity].
Qed.

(* every non-empty suffix of w mismatches old *)
Fixpoint inert (old w : bytes) : bool :=
  match w with
  | [] => true
  | _ :: w' => mismatch old w && inert old w'
  end.

Lemma emit_inert old new w : forall fuel rest,
  inert old w = true ->
  replace_all_fuel (List.length w + fuel) old new (w ++ rest) = w ++ replace_all_fuel fuel old new rest.
Proof.
  induction w as [|c w IH]; intros fuel rest H; [reflexivity|].
  cbn [inert] in H. apply andb_true_iff in H as [Hm Hi].
  cbn [List.length Nat.add replace_all_fuel app].
  change (c :: w ++ rest) with ((c :: w) ++ rest). rewrite (mismatch_no_prefix old (c :: w) rest Hm).
  cbn [app]. rewrite IH by exact Hi. reflexivity.
Qed.

Lemma emit_old old new fuel rest :
  old <> [] ->
  replace_all_fuel (S fuel) old new (old ++ rest) = new ++ replace_all_fuel fuel old new rest.
Proof.
  intros Hne. destruct old as [|a old]; [congruence|].
  cbn [replace_all_fuel app]. change (a :: old ++ rest) with ((a :: old) ++ rest).
  rewrite prefixb_app, skipn_app_len. reflexivity.
Qed.

(* chunked strings: every chunk is either exactly old (replaced by new) or inert *)
Section Chunks.
Variables (old new : bytes) (g h : N -> bytes).
Hypothesis old_ne : old <> [].
Hypothesis chunk_ok : forall c, (g c = old /\ h c = new) \/ (inert old (g c) = true /\ h c = g c /\ g c <> []).

Lemma replace_chunks s : forall fuel,
  (List.length (concat (map g s)) <= fuel)%nat ->
  replace_all_fuel fuel old new (concat (map g s)) = concat (map h s).
Proof.
  induction s as [|c s IH]; intros fuel Hf.
  - destruct fuel; reflexivity.
  - cbn [map concat] in *. rewrite app_length in Hf.
    destruct (chunk_ok c) as [[Eg Eh]|(Hi & Eh & Hne)].
    + rewrite Eg, Eh in *. destruct fuel as [|fuel].
      { destruct old; [congruence | simpl in Hf; lia]. }
      rewrite emit_old by exact old_ne. rewrite IH; [reflexivity|].
      destruct old; [congruence | simpl in Hf; lia].
    + rewrite Eh. replace fuel with (List.length (g c) + (fuel - List.length (g c)))%nat by lia.
      rewrite emit_inert by exact Hi. rewrite IH by lia. reflexivity.
Qed.
End Chunks.

(* stage 1: the double-quote entity is put back *)
Definition stage1 (c : N) : bytes := if c =? 34 then [34] else escape_byte c.

Lemma escape_byte_cases c :
  (c = 38 \/ c = 39 \/ c = 60 \/ c = 62 \/ c = 34) \/
  (c <> 38 /\ c <> 39 /\ c <> 60 /\ c <> 62 /\ c <> 34 /\ escape_byte c = [c]).
Proof.
  unfold escape_byte.
  destruct (c =? 38) eqn:E1; [left; left; apply N.eqb_eq; exact E1|].
  destruct (c =? 39) eqn:E2; [left; right; left; apply N.eqb_eq; exact E2|].
  destruct (c =? 60) eqn:E3; [left; right; right; left; apply N.eqb_eq; exact E3|].
  destruct (c =? 62) eqn:E4; [left; right; right; right; left; apply N.eqb_eq; exact E4|].
  destruct (c =? 34) eqn:E5; [left; right; right; right; right; apply N.eqb_eq; exact E5|].
  right. repeat split; try (apply N.eqb_neq; assumption).
Qed.

Lemma single_inert a old c : a <> c -> inert (a :: old) [c] = true.
Proof.
  intros H. cbn [inert mismatch]. apply N.eqb_neq in H. rewrite H. reflexivity.
Qed.

Lemma chunk1 c :
  (escape_byte c = bs "&#34;" /\ stage1 c = [34]) \/
  (inert (bs "&#34;") (escape_byte c) = true /\ stage1 c = escape_byte c /\ escape_byte c <> []).
Proof.
  destruct (escape_byte_cases c) as [[->|[->|[->|[->| ->]]]]|(N1 & N2 & N3 & N4 & N5 & E)].
  - right. repeat split; discriminate || reflexivity.
  - right. repeat split; discriminate || reflexivity.
  - right. repeat split; discriminate || reflexivity.
  - right. repeat split; discriminate || reflexivity.
  - left. split; reflexivity.
  - right. unfold stage1. rewrite E.
    apply N.eqb_neq in N5. rewrite N5. repeat split; try discriminate.
    apply (single_inert 38). congruence.
Qed.

Lemma chunk2 c :
  (stage1 c = bs "&#39;" /\ esc1 c = [39]) \/
  (inert (bs "&#39;") (stage1 c) = true /\ esc1 c = stage1 c /\ stage1 c <> []).
Proof.
  destruct (escape_byte_cases c) as [[->|[->|[->|[->| ->]]]]|(N1 & N2 & N3 & N4 & N5 & E)].
  - right. repeat split; discriminate || reflexivity.
  - left. split; reflexivity.
  - right. repeat split; discriminate || reflexivity.
  - right. repeat split; discriminate || reflexivity.
  - right. repeat split; discriminate || reflexivity.
  - right. unfold stage1, esc1. rewrite E.
    apply N.eqb_neq in N5, N1, N3, N4. rewrite N5, N1, N3, N4. repeat split; try discriminate.
    apply (single_inert 38). apply N.eqb_neq in N1. congruence.
Qed.

Lemma esc_spec_concat s : esc_spec s = concat (map esc1 s).
Proof. reflexivity. Qed.

Theorem eval_string_lit_is_esc_spec s : eval_string_lit s = esc_spec s.
Proof.
  unfold eval_string_lit, html_escape, replace_all.
  assert (N34 : bs "&#34;" <> []) by discriminate.
  assert (N39 : bs "&#39;" <> []) by discriminate.
  rewrite (replace_chunks (bs "&#34;") [34] escape_byte stage1 N34 chunk1 s) by lia.
  rewrite (replace_chunks (bs "&#39;") [39] stage1 esc1 N39 chunk2 s) by lia.
  reflexivity.
Qed.
