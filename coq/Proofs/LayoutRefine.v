(* C06, end to end on the model: a page that declares @use(L) renders exactly the layout L in which
   every @reserve(n) - at any nesting depth inside @if / @each / @for - is replaced by what the page
   inserts for n (the body of a block insert, the value of the expression form, nothing when the
   page inserts nothing).

   The specification side is Spec/Template.v: a layout is a list of nodes whose reserves are empty,
   `fill` puts the page's inserts into them, and the big-step semantics says what a filled reserve
   shows.  The model side is the loader (Model/Api.v: load_page = applyLayoutToProgram + ApplyInserts,
   the rewriting rw_stmt with its depth budget) and the evaluator (evalUseStmt, evalReserveStmt).
   The theorem composes: the loader's rewriting IS fill (up to line numbers), line numbers do not
   matter (LineIrrelevance.v), and the evaluator refines the semantics (TemplateRefine.v, which
   covers reserves). *)
From Coq Require Import String Lia.
From TW Require Import Bytes GenToken Lexer Ast Parser Values Builtins Eval Render Api.
From TW Require Import Expr Template ExprSem Control CleanValues TemplateRefine LineIrrelevance EvalMono.
Open Scope N_scope.

(* ---------- what a page inserts, on the specification side *)
Inductive sinsert := IBlock (b : list tnode) | IExpr (e : sexpr).

Section Fill.
Variable ins : bytes -> option sinsert.

Fixpoint fill (n : tnode) : tnode :=
  let ofill (o : option (list tnode)) := match o with Some b => Some (map fill b) | None => None end in
  match n with
  | NIf c thn elifs els =>
    NIf c (map fill thn) (map (fun cb : sexpr * list tnode => (fst cb, map fill (snd cb))) elifs) (ofill els)
  | NEach v arr body els => NEach v arr (map fill body) (ofill els)
  | NFor i c p body els => NFor i c p (map fill body) (ofill els)
  | NReserve name rid _ _ =>
    match ins name with
    | Some (IBlock b) => NReserve name rid (Some b) None
    | Some (IExpr e) => NReserve name rid None (Some e)
    | None => NReserve name rid None None
    end
  | _ => n
  end.

(* the insert as the loader attaches it to the reserve statement *)
Definition cins (i : sinsert) : nat * expr * option (list stmt) :=
  match i with
  | IBlock b => (1%nat, ENull, Some (map cnode b))
  | IExpr e => (1%nat, compile e, None)
  end.

Definition strip_ins (x : nat * expr * option (list stmt)) : nat * expr * option (list stmt) :=
  match x with
  | (_, a, b) => (O, strip_e a, match b with Some l => Some (map strip_s l) | None => None end)
  end.

(* a layout tree the loader can fill: nesting depth within the budget, every reserve still empty,
   and the parser's table of reserves (rn: rid -> name) agrees with the statements *)
Variable rn : nat -> option bytes.

Fixpoint lay (fuel : nat) (n : tnode) : Prop :=
  match fuel with
  | O => False
  | S f =>
    let ol (o : option (list tnode)) := match o with Some b => Forall (lay f) b | None => True end in
    match n with
    | NIf _ thn elifs els =>
      Forall (lay f) thn /\ Forall (fun cb : sexpr * list tnode => Forall (lay f) (snd cb)) elifs /\ ol els
    | NEach _ _ body els => Forall (lay f) body /\ ol els
    | NFor _ _ _ body els => Forall (lay f) body /\ ol els
    | NReserve name rid blk arg => blk = None /\ arg = None /\ rn rid = Some name
    | NComponent _ _ _ _ | NSlot _ _ => False      (* component uses inside the layout: outside this theorem *)
    | _ => True
    end
  end.

(* a larger budget admits the same trees *)
Lemma lay_S : forall f n, lay f n -> lay (S f) n.
Proof.
  induction f as [|f IH]; intros n H; [destruct H|].
  assert (IHl : forall l, Forall (lay f) l -> Forall (lay (S f)) l).
  { intros l Hl. apply (Forall_impl _ IH Hl). }
  destruct n; try exact I; try (destruct H; fail).
  - destruct H as (Ht & He & Ho). split; [exact (IHl _ Ht)|]. split.
    + apply (Forall_impl _ (fun cb (Hb : Forall (lay f) (snd cb)) => IHl _ Hb) He).
    + destruct els as [b|]; [exact (IHl _ Ho)|exact I].
  - destruct H as (Hb & Ho). split; [exact (IHl _ Hb)|]. destruct els as [b|]; [exact (IHl _ Ho)|exact I].
  - destruct H as (Hb & Ho). split; [exact (IHl _ Hb)|]. destruct els as [b|]; [exact (IHl _ Ho)|exact I].
  - exact H.
Qed.

Lemma lay_le f g n : (f <= g)%nat -> lay f n -> lay g n.
Proof. intro H. induction H as [|g H IH]; [auto|]. intro L. apply lay_S, IH, L. Qed.

Definition ins_ok : Prop :=
  forall name i, ins name = Some i ->
    match i with IBlock b => nodes_ok b | IExpr e => lits_ok e end.

(* ---------- the loader's rewriting is fill *)
Variable cb0 : nat -> option (list stmt).
Variable ri : nat -> option (nat * expr * option (list stmt)).
Hypothesis ri_ins : forall rid name, rn rid = Some name ->
  ri rid = match ins name with Some i => Some (strip_ins (cins i)) | None => None end.

Lemma rw_fill : forall fuel n, lay fuel n ->
  rw_stmt cb0 ri fuel (strip_s (cnode n)) = strip_s (cnode (fill n)).
Proof.
  induction fuel as [|f IH]; intros n L; [destruct L|].
  assert (IHl : forall l, Forall (lay f) l ->
            map (rw_stmt cb0 ri f) (map strip_s (map cnode l)) = map strip_s (map cnode (map fill l))).
  { intros l Hl. rewrite !map_map. apply map_ext_in. intros x Hx. apply IH. rewrite Forall_forall in Hl. exact (Hl x Hx). }
  assert (IHo : forall o : option (list tnode), match o with Some b => Forall (lay f) b | None => True end ->
            match match o with Some b => Some (map strip_s (map cnode b)) | None => None end with
            | Some b => Some (map (rw_stmt cb0 ri f) b) | None => None end =
            match match o with Some b => Some (map fill b) | None => None end with
            | Some b => Some (map strip_s (map cnode b)) | None => None end).
  { intros [b|] Ho; [rewrite (IHl b Ho)|]; reflexivity. }
  destruct n; cbn [lay] in L; try contradiction; cbn [cnode fill strip_s rw_stmt]; try reflexivity.
  - (* @if *)
    destruct L as (Lt & Le & Lo). rewrite (IHl thn Lt). f_equal.
    + rewrite !map_map. apply map_ext_in. intros [c' b] Hb. cbn [fst snd]. f_equal.
      rewrite Forall_forall in Le. exact (IHl b (Le _ Hb)).
    + destruct els as [b|]; [|reflexivity]. cbn. rewrite (IHl b Lo). reflexivity.
  - (* @each *)
    destruct L as (Lb & Lo). rewrite (IHl body Lb). f_equal.
    destruct els as [b|]; [|reflexivity]. cbn. rewrite (IHl b Lo). reflexivity.
  - (* @for *)
    destruct L as (Lb & Lo). rewrite (IHl body Lb). f_equal.
    destruct els as [b|]; [|reflexivity]. cbn. rewrite (IHl b Lo). reflexivity.
  - (* @reserve *)
    destruct L as (-> & -> & Hrn). rewrite (ri_ins rid name Hrn).
    destruct (ins name) as [[b|e]|]; reflexivity.
Qed.

(* filling keeps the nodes inside what the refinement theorem covers *)
Hypothesis Hins : ins_ok.

Lemma fill_ok : forall fuel n, lay fuel n -> node_ok n -> node_ok (fill n).
Proof.
  induction fuel as [|f IH]; intros n L Hok; [destruct L|].
  assert (IHl : forall l, Forall (lay f) l -> nodes_ok l -> nodes_ok (map fill l)).
  { induction l as [|x l IHl]; intros Hl Hk; [exact I|]. inversion Hl; subst. destruct Hk as [Hx Hk].
    split; [apply IH; assumption|apply IHl; assumption]. }
  destruct n; cbn [lay] in L; try contradiction; cbn [fill]; try exact Hok.
  - destruct L as (Lt & Le & Lo). cbn [node_ok] in Hok |- *. destruct Hok as (Hc & Ht & Helifs & Hels).
    split; [exact Hc|]. split; [exact (IHl thn Lt Ht)|]. split.
    + clear Ht Hels Lt Lo. induction elifs as [|[c' b] elifs IHe]; [exact I|].
      inversion Le as [|? ? Lb' Le']; subst. destruct Helifs as (Hq1 & Hq2 & Hq3). cbn [map fst snd] in *.
      split; [exact Hq1|]. split; [exact (IHl b Lb' Hq2)|]. apply IHe; assumption.
    + destruct els as [b|]; [exact (IHl b Lo Hels)|exact I].
  - destruct L as (Lb & Lo). cbn [node_ok] in Hok |- *. destruct Hok as (Ha & Hb & Hels).
    split; [exact Ha|]. split; [exact (IHl body Lb Hb)|]. destruct els as [b|]; [exact (IHl b Lo Hels)|exact I].
  - destruct L as (Lb & Lo). cbn [node_ok] in Hok |- *. destruct Hok as (Hi & Hc & Hp & Hb & Hels).
    repeat (split; [assumption|]). split; [exact (IHl body Lb Hb)|]. destruct els as [b|]; [exact (IHl b Lo Hels)|exact I].
  - destruct L as (-> & -> & Hrn). pose proof (Hins name) as Hi.
    destruct (ins name) as [[b|e]|]; cbn [node_ok]; [|split; [exact I|exact (Hi _ eq_refl)]|split; exact I].
    split; [exact (Hi _ eq_refl)|exact I].
Qed.

Lemma fill_all_ok L : Forall (lay rw_fuel) L -> nodes_ok L -> nodes_ok (map fill L).
Proof.
  induction L as [|x L IH]; intros Hl Hk; [exact I|]. inversion Hl; subst. destruct Hk as [Hx Hk].
  split; [apply (fill_ok rw_fuel); assumption|apply IH; assumption].
Qed.

End Fill.

(* ---------- rewriting commutes with erasing the lines *)
Lemma rw_strip cb ri : forall fuel s,
  strip_s (rw_stmt cb ri fuel s) =
  rw_stmt (fun c => match cb c with Some b => Some (map strip_s b) | None => None end)
          (fun r => match ri r with Some x => Some (strip_ins x) | None => None end) fuel (strip_s s).
Proof.
  induction fuel as [|f IH]; intro s; [reflexivity|].
  assert (IHl : forall l, map strip_s (map (rw_stmt cb ri f) l) =
            map (rw_stmt (fun c => match cb c with Some b => Some (map strip_s b) | None => None end)
                         (fun r => match ri r with Some x => Some (strip_ins x) | None => None end) f) (map strip_s l)).
  { intro l. rewrite !map_map. apply map_ext. intro x. apply IH. }
  destruct s; cbn [rw_stmt strip_s]; try reflexivity.
  - rewrite IHl. f_equal.
    + rewrite !map_map. apply map_ext. intros [c' b]. cbn [fst snd]. rewrite IHl. reflexivity.
    + destruct alt as [b|]; [rewrite IHl|]; reflexivity.
  - rewrite IHl. f_equal. destruct alt as [b|]; [rewrite IHl|]; reflexivity.
  - rewrite IHl. f_equal. destruct alt as [b|]; [rewrite IHl|]; reflexivity.
  - destruct (ri rid) as [[[iln arg] body]|]; reflexivity.
  - f_equal. destruct body as [b|]; [rewrite IHl|]; reflexivity.
  - destruct (cb cid) as [b|]; [|reflexivity]. cbn [strip_s]. f_equal. f_equal.
    rewrite !map_map. apply map_ext. intro x.
    destruct x; try reflexivity. destruct body as [bd|]; [|reflexivity]. cbn [strip_s]. rewrite IHl. reflexivity.
  - f_equal. destruct body as [b|]; [rewrite IHl|]; reflexivity.
Qed.

(* with nothing to attach the rewriting changes nothing *)
Lemma rw_nothing cb ri : (forall c, cb c = None) -> (forall r, ri r = None) ->
  forall fuel s, rw_stmt cb ri fuel s = s.
Proof.
  intros Hc Hr. induction fuel as [|f IH]; intro s; [reflexivity|].
  assert (IHl : forall l, map (rw_stmt cb ri f) l = l).
  { intro l. rewrite (map_ext _ (fun x => x) IH). apply map_id. }
  destruct s; cbn [rw_stmt]; try reflexivity.
  - rewrite IHl. f_equal.
    + rewrite (map_ext _ (fun x => x)); [apply map_id|]. intros [c' b]. cbn [fst snd]. rewrite IHl. reflexivity.
    + destruct alt as [b|]; [rewrite IHl|]; reflexivity.
  - rewrite IHl. f_equal. destruct alt as [b|]; [rewrite IHl|]; reflexivity.
  - rewrite IHl. f_equal. destruct alt as [b|]; [rewrite IHl|]; reflexivity.
  - rewrite Hr. reflexivity.
  - f_equal. destruct body as [b|]; [rewrite IHl|]; reflexivity.
  - rewrite Hc. f_equal.
    rewrite (map_ext _ (fun x => x)); [apply map_id|]. intros [[sln sn] b]. rewrite IHl. reflexivity.
  - f_equal. destruct body as [b|]; [rewrite IHl|]; reflexivity.
Qed.

Lemma rw_ext cb cb' ri ri' : (forall c, cb c = cb' c) -> (forall r, ri r = ri' r) ->
  forall fuel s, rw_stmt cb ri fuel s = rw_stmt cb' ri' fuel s.
Proof.
  intros Hc Hr. induction fuel as [|f IH]; intro s; [reflexivity|].
  assert (IHl : forall l, map (rw_stmt cb ri f) l = map (rw_stmt cb' ri' f) l).
  { intro l. apply map_ext. exact IH. }
  destruct s; cbn [rw_stmt]; try reflexivity.
  - rewrite IHl. f_equal.
    + apply map_ext. intros [c' b]. cbn [fst snd]. rewrite IHl. reflexivity.
    + destruct alt as [b|]; [rewrite IHl|]; reflexivity.
  - rewrite IHl. f_equal. destruct alt as [b|]; [rewrite IHl|]; reflexivity.
  - rewrite IHl. f_equal. destruct alt as [b|]; [rewrite IHl|]; reflexivity.
  - rewrite Hr. reflexivity.
  - f_equal. destruct body as [b|]; [rewrite IHl|]; reflexivity.
  - rewrite Hc.
    assert (Hs : map (fun sl : nat * bytes * list stmt => match sl with (sln, sn, b) => (sln, sn, map (rw_stmt cb ri f) b) end) slots =
                 map (fun sl : nat * bytes * list stmt => match sl with (sln, sn, b) => (sln, sn, map (rw_stmt cb' ri' f) b) end) slots).
    { apply map_ext. intros [[sln sn] b]. rewrite IHl. reflexivity. }
    rewrite Hs. destruct (cb' cid) as [b|]; [|reflexivity]. f_equal. f_equal.
    apply map_ext. intro x. destruct x; try reflexivity. destruct body as [bd|]; [rewrite IHl|]; reflexivity.
  - f_equal. destruct body as [b|]; [rewrite IHl|]; reflexivity.
Qed.

(* ---------- the loader: a page with @use and no components *)
Definition rid_name (reserves : list (bytes * nat)) (rid : nat) : option bytes :=
  (fix go (rs : list (bytes * nat)) : option bytes :=
     match rs with [] => None | (n, r) :: rs' => if Nat.eqb r rid then Some n else go rs' end) reserves.

Definition ins_of_page (p : program) (name : bytes) : option (nat * expr * option (list stmt)) :=
  match alookup name (p_inserts p) with
  | Some i => Some (ins_ln i, ins_arg i, ins_body i)
  | None => None
  end.

Definition by_rid (p lp : program) (rid : nat) : option (nat * expr * option (list stmt)) :=
  match rid_name (p_reserves lp) rid with Some n => ins_of_page p n | None => None end.

Local Opaque rw_fuel.
Theorem load_page_with_layout fs cfg rel p lp uln lname :
  parse_file fs rel = LOk (PProg p) -> p_use p = Some (uln, lname) -> p_components p = [] ->
  parse_file fs (rel_of cfg lname) = LOk (PProg lp) ->
  undefined_insert (asort (p_inserts p)) (p_reserves lp) = None ->
  load_page fs cfg rel =
    LOk ([SUse uln lname (Some (true, match p_use lp with Some _ => true | None => false end,
                                map (rw_stmt (fun _ => None) (by_rid p lp) rw_fuel) (p_stmts lp)))],
         match p_reserves p with [] => false | _ => true end).
Proof.
  intros Hp Hu Hc Hl Hi. unfold load_page. rewrite Hp. cbv beta iota. rewrite Hu. cbv beta iota.
  rewrite Hl. cbv beta iota. rewrite Hi. cbv beta iota. rewrite Hc. cbn [resolve_components]. cbv beta iota.
  match goal with |- LOk ([SUse _ _ (Some (_, _, ?a))], _) = LOk ([SUse _ _ (Some (_, _, ?b))], _) =>
    assert (E : a = b); [|rewrite E; reflexivity] end.
  apply map_ext. intro s. apply rw_ext; [reflexivity|]. intro rid. unfold by_rid, rid_name. clear Hi.
  induction (p_reserves lp) as [|[n r] rs IH]; [reflexivity|].
  destruct (Nat.eqb r rid); [|exact IH].
  unfold ins_of_page. destruct (alookup n (p_inserts p)) as [i|]; [|reflexivity].
  destruct (ins_body i) as [b|]; [|reflexivity].
  assert (Eb : map (rw_stmt (fun cid : nat => lookup_nat cid []) (fun _ : nat => None) rw_fuel) b = b).
  { rewrite (map_ext _ (fun x => x)); [apply map_id|]. intro x. apply rw_nothing; reflexivity. }
  rewrite Eb. reflexivity.
Qed.

(* evalUseStmt under the program loop *)
Lemma use_program cx F en ln nm l :
  eval_program cx (S (S F)) en [SUse ln nm (Some (true, false, l))] [] =
  match eval_program cx F en l [] with
  | Ok r => Ok (fst r, snd r)
  | Fail a b => Fail a b
  | Panic => Panic
  | OutOfFuel => OutOfFuel
  | Unmodelled => Unmodelled
  end.
Proof.
  cbn [eval_program eval_stmt andb]. destruct (eval_program cx F en l []) as [[o e]| | | |]; try reflexivity.
Qed.

(* ---------- the page renders its layout, filled *)
Theorem page_renders_filled_layout fs cfg rel p lp uln lname L ins fsp gd (data : list (bytes * value)) :
  parse_file fs rel = LOk (PProg p) -> p_use p = Some (uln, lname) -> p_components p = [] ->
  parse_file fs (rel_of cfg lname) = LOk (PProg lp) -> p_use lp = None ->
  undefined_insert (asort (p_inserts p)) (p_reserves lp) = None ->
  (* the layout file's statements are those of the tree L (up to line numbers) ... *)
  map strip_s (p_stmts lp) = map strip_s (map cnode L) ->
  Forall (lay (rid_name (p_reserves lp)) rw_fuel) L -> nodes_ok L ->
  (* ... and the page's inserts are those of ins *)
  (forall name, match ins_of_page p name with Some x => Some (strip_ins x) | None => None end =
                match ins name with Some i => Some (strip_ins (cins i)) | None => None end) ->
  ins_ok ins ->
  env_from_map gd = EnvOk [data] ->
  forallb (fun kv : bytes * value => clean (snd kv)) data = true ->
  exists ss isl, load_page fs cfg rel = LOk (ss, isl) /\
  exists K, (K <= eval_fuel)%nat -> forall tpl name, alookup name tpl = Some ss ->
    match run_nodes T fsp [data] (map (fill ins) L) with
    | TOk out SigNormal _ => template_string cx0 cfg tpl name gd = StrOk out
    | TOk _ _ _ => True
    | TFail => exists e, template_string cx0 cfg tpl name gd = StrErr e
    | TNoFuel | TUnprintable => True
    end.
Proof.
  intros Hp Hu Hc Hl Hul Hi Hst Hlay Hok Hins Hiok He Hcl.
  eexists. eexists. split; [exact (load_page_with_layout fs cfg rel p lp uln lname Hp Hu Hc Hl Hi)|].
  rewrite Hul.
  set (lst := map (rw_stmt (fun _ => None) (by_rid p lp) rw_fuel) (p_stmts lp)).
  set (tgt := map cnode (map (fill ins) L)).
  assert (S1 : map strip_s lst = map strip_s tgt).
  { subst lst tgt. rewrite map_map. rewrite (map_ext _ _ (rw_strip _ _ rw_fuel)). rewrite <- (map_map strip_s), Hst.
    rewrite !map_map. apply map_ext_in. intros n Hn.
    pose proof (proj1 (Forall_forall _ _) Hlay n Hn) as Hl'.
    refine (rw_fill ins (rid_name (p_reserves lp))
              (fun c : nat => match (fun _ : nat => @None (list stmt)) c with Some b => Some (map strip_s b) | None => None end)
              (fun r : nat => match by_rid p lp r with Some x => Some (strip_ins x) | None => None end)
              _ rw_fuel n Hl').
    intros rid name Hrn. unfold by_rid. rewrite Hrn. apply Hins. }
  pose proof (fill_all_ok ins (rid_name (p_reserves lp)) Hiok L Hlay Hok) as Hok'.
  destruct (template_refines_specification fsp data (map (fill ins) L) Hcl Hok') as (K & HK).
  exists (S (S K)). intros Hle tpl name Htpl.
  assert (HF : exists F, eval_fuel = S (S F)) by (exists (Nat.pred (Nat.pred eval_fuel)); reflexivity).
  destruct HF as [F HF]. specialize (HK F ltac:(lia)).
  pose proof (lines_do_not_matter cx0 eval_fuel [data] [SUse uln lname (Some (true, false, lst))]
                [SUse 1 lname (Some (true, false, tgt))] []
                ltac:(cbn [map strip_s]; rewrite S1; reflexivity)) as Sm.
  unfold template_string. rewrite He, Htpl.
  rewrite HF in Sm |- *. rewrite (use_program cx0 F [data] 1 lname tgt) in Sm. fold tgt in HK.
  destruct (run_nodes T fsp [data] (map (fill ins) L)) as [out sg sc| | |]; try exact I.
  - destruct sg; try exact I. destruct HK as (en' & E). rewrite E in Sm.
    destruct (eval_program cx0 (S (S F)) [data] [SUse uln lname (Some (true, false, lst))] []) as [r|ln msg| | |];
      cbn in Sm; try contradiction.
    subst r. reflexivity.
  - destruct HK as (ln & msg & E). rewrite E in Sm.
    destruct (eval_program cx0 (S (S F)) [data] [SUse uln lname (Some (true, false, lst))] []) as [r|ln' msg'| | |];
      cbn in Sm; try contradiction.
    eexists. reflexivity.
Qed.

(* ---------- the same for pages that also use components (in their insert bodies): the insert bodies
   reach the reserves with their component blocks attached *)
Definition ins_of_page_att (blocks : list (nat * list stmt)) (p : program) (name : bytes)
  : option (nat * expr * option (list stmt)) :=
  match alookup name (p_inserts p) with
  | Some i => Some (ins_ln i, ins_arg i,
                    match ins_body i with
                    | Some b => Some (map (rw_stmt (fun cid => lookup_nat cid blocks) (fun _ => None) rw_fuel) b)
                    | None => None
                    end)
  | None => None
  end.

Definition by_rid_att (blocks : list (nat * list stmt)) (p lp : program) (rid : nat) :=
  match rid_name (p_reserves lp) rid with Some n => ins_of_page_att blocks p n | None => None end.

Theorem load_page_with_layout_and_components fs cfg rel p lp uln lname blocks :
  parse_file fs rel = LOk (PProg p) -> p_use p = Some (uln, lname) ->
  parse_file fs (rel_of cfg lname) = LOk (PProg lp) ->
  undefined_insert (asort (p_inserts p)) (p_reserves lp) = None ->
  resolve_components fs cfg (abs_path rel) (p_components p) = LOk blocks ->
  load_page fs cfg rel =
    LOk ([SUse uln lname (Some (true, match p_use lp with Some _ => true | None => false end,
                                map (rw_stmt (fun _ => None) (by_rid_att blocks p lp) rw_fuel) (p_stmts lp)))],
         match p_reserves p with [] => false | _ => true end).
Proof.
  intros Hp Hu Hl Hi Hc. unfold load_page. rewrite Hp. cbv beta iota. rewrite Hu. cbv beta iota.
  rewrite Hl. cbv beta iota. rewrite Hi. cbv beta iota. rewrite Hc. cbv beta iota.
  match goal with |- LOk ([SUse _ _ (Some (_, _, ?a))], _) = LOk ([SUse _ _ (Some (_, _, ?b))], _) =>
    assert (E : a = b); [|rewrite E; reflexivity] end.
  apply map_ext. intro s. apply rw_ext; [reflexivity|]. intro rid. unfold by_rid_att, rid_name. clear Hi.
  induction (p_reserves lp) as [|[n r] rs IH]; [reflexivity|].
  destruct (Nat.eqb r rid); [|exact IH]. reflexivity.
Qed.

Theorem page_with_components_renders_filled_layout fs cfg rel p lp uln lname blocks L ins fsp gd (data : list (bytes * value)) :
  parse_file fs rel = LOk (PProg p) -> p_use p = Some (uln, lname) ->
  parse_file fs (rel_of cfg lname) = LOk (PProg lp) -> p_use lp = None ->
  undefined_insert (asort (p_inserts p)) (p_reserves lp) = None ->
  resolve_components fs cfg (abs_path rel) (p_components p) = LOk blocks ->
  map strip_s (p_stmts lp) = map strip_s (map cnode L) ->
  Forall (lay (rid_name (p_reserves lp)) rw_fuel) L -> nodes_ok L ->
  (* the page's inserts, with the component blocks attached, are those of ins *)
  (forall name, match ins_of_page_att blocks p name with Some x => Some (strip_ins x) | None => None end =
                match ins name with Some i => Some (strip_ins (cins i)) | None => None end) ->
  ins_ok ins ->
  env_from_map gd = EnvOk [data] ->
  forallb (fun kv : bytes * value => clean (snd kv)) data = true ->
  exists ss isl, load_page fs cfg rel = LOk (ss, isl) /\
  exists K, (K <= eval_fuel)%nat -> forall tpl name, alookup name tpl = Some ss ->
    match run_nodes T fsp [data] (map (fill ins) L) with
    | TOk out SigNormal _ => template_string cx0 cfg tpl name gd = StrOk out
    | TOk _ _ _ => True
    | TFail => exists e, template_string cx0 cfg tpl name gd = StrErr e
    | TNoFuel | TUnprintable => True
    end.
Proof.
  intros Hp Hu Hl Hul Hi Hc Hst Hlay Hok Hins Hiok He Hcl.
  eexists. eexists. split; [exact (load_page_with_layout_and_components fs cfg rel p lp uln lname blocks Hp Hu Hl Hi Hc)|].
  rewrite Hul.
  set (lst := map (rw_stmt (fun _ => None) (by_rid_att blocks p lp) rw_fuel) (p_stmts lp)).
  set (tgt := map cnode (map (fill ins) L)).
  assert (S1 : map strip_s lst = map strip_s tgt).
  { subst lst tgt. rewrite map_map. rewrite (map_ext _ _ (rw_strip _ _ rw_fuel)). rewrite <- (map_map strip_s), Hst.
    rewrite !map_map. apply map_ext_in. intros n Hn.
    pose proof (proj1 (Forall_forall _ _) Hlay n Hn) as Hl'.
    refine (rw_fill ins (rid_name (p_reserves lp))
              (fun c : nat => match (fun _ : nat => @None (list stmt)) c with Some b => Some (map strip_s b) | None => None end)
              (fun r : nat => match by_rid_att blocks p lp r with Some x => Some (strip_ins x) | None => None end)
              _ rw_fuel n Hl').
    intros rid name Hrn. unfold by_rid_att. rewrite Hrn. apply Hins. }
  pose proof (fill_all_ok ins (rid_name (p_reserves lp)) Hiok L Hlay Hok) as Hok'.
  destruct (template_refines_specification fsp data (map (fill ins) L) Hcl Hok') as (K & HK).
  exists (S (S K)). intros Hle tpl name Htpl.
  assert (HF : exists F, eval_fuel = S (S F)) by (exists (Nat.pred (Nat.pred eval_fuel)); reflexivity).
  destruct HF as [F HF]. specialize (HK F ltac:(lia)).
  pose proof (lines_do_not_matter cx0 eval_fuel [data] [SUse uln lname (Some (true, false, lst))]
                [SUse 1 lname (Some (true, false, tgt))] []
                ltac:(cbn [map strip_s]; rewrite S1; reflexivity)) as Sm.
  unfold template_string. rewrite He, Htpl.
  rewrite HF in Sm |- *. rewrite (use_program cx0 F [data] 1 lname tgt) in Sm. fold tgt in HK.
  destruct (run_nodes T fsp [data] (map (fill ins) L)) as [out sg sc| | |]; try exact I.
  - destruct sg; try exact I. destruct HK as (en' & E). rewrite E in Sm.
    destruct (eval_program cx0 (S (S F)) [data] [SUse uln lname (Some (true, false, lst))] []) as [r|ln msg| | |];
      cbn in Sm; try contradiction.
    subst r. reflexivity.
  - destruct HK as (ln & msg & E). rewrite E in Sm.
    destruct (eval_program cx0 (S (S F)) [data] [SUse uln lname (Some (true, false, lst))] []) as [r|ln' msg'| | |];
      cbn in Sm; try contradiction.
    eexists. reflexivity.
Qed.
