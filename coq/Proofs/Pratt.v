(* C01, syntactic half: the Pratt parser of the model groups operators by the precedence table
   read from parser.go, left to right within a level, whatever redundant parentheses the source
   has.

   A concrete syntax tree [cst] records which tokens form which sub-expression.  [wf] says the
   tree respects the table: every operand is, unparenthesised, only what that operator position
   can hold.  The theorem: for every well-formed tree, parsing the tokens of the tree ([flat])
   followed by anything that cannot continue an expression yields exactly the AST of the tree
   ([ast]) and stops on its last token.  The precedence numbers are the translator's
   ([precedences] of GenParser.v), so a change of the table or of a binding power passed at a
   call site breaks these proofs. *)
From Coq Require Import String Lia.
From TW Require Import Bytes GenToken GenParser Lexer Ast Parser GenTie.

(* ---------- "for all sufficiently large fuel" *)
Definition conv {A} (F : nat -> pres A) (a : A) (s : pstate) : Prop :=
  exists n, forall fuel, (n <= fuel)%nat -> F fuel = POk a s.

(* ---------- concrete syntax *)
Inductive cst :=
| CAtom (t : token)
| CPar (lp rp : token) (x : cst)
| CBin (o : token) (l r : cst)
| CPre (o : token) (x : cst)
| CPost (o : token) (x : cst)
| CTern (q col : token) (c a b : cst)
| CIdx (lb rb : token) (x i : cst)
| CDot (dot name : token) (x : cst)
| CCall (dot name lp rp : token) (x : cst) (args : list (token * cst))
    (* every argument with the comma before it; the token of the first one is not used *)
| CArr (lb rb : token) (els : list (token * cst)).

(* a comma-separated list: the comma of the first element is left out *)
Definition flat_list_with (fl : cst -> list token) :=
  fix go (first : bool) (l : list (token * cst)) : list token :=
    match l with
    | [] => []
    | (cm, a) :: l' => (if first then [] else [cm]) ++ fl a ++ go false l'
    end.

Fixpoint flat (c : cst) : list token :=
  match c with
  | CAtom t => [t]
  | CPar lp rp x => lp :: flat x ++ [rp]
  | CBin o l r => flat l ++ o :: flat r
  | CPre o x => o :: flat x
  | CPost o x => flat x ++ [o]
  | CTern q col c a b => flat c ++ q :: flat a ++ col :: flat b
  | CIdx lb rb x i => flat x ++ lb :: flat i ++ [rb]
  | CDot dot name x => flat x ++ [dot; name]
  | CCall dot name lp rp x args => flat x ++ dot :: name :: lp :: flat_list_with flat true args ++ [rp]
  | CArr lb rb els => lb :: flat_list_with flat true els ++ [rb]
  end.

Definition flat_list := flat_list_with flat.

Fixpoint lastc (c : cst) : token :=
  match c with
  | CAtom t => t
  | CPar lp rp x => rp
  | CBin o l r => lastc r
  | CPre o x => lastc x
  | CPost o x => o
  | CTern q col c a b => lastc b
  | CIdx lb rb x i => rb
  | CDot dot name x => name
  | CCall dot name lp rp x args => rp
  | CArr lb rb els => rb
  end.

Definition atom_ast (t : token) : option expr :=
  match prefix_of (ttype t) with
  | Some PK_Ident => Some (EIdent (eline t) (tlit t))
  | Some PK_Int => match parseInt (tlit t) with Some v => Some (EInt (eline t) v) | None => None end
  | Some PK_Float => if Nat.eqb (count_dots (tlit t)) 1 then Some (EFloat (eline t) (tlit t)) else None
  | Some PK_Str => Some (EStr (eline t) (tlit t))
  | Some PK_Nil => Some (ENil (eline t))
  | Some PK_Bool => Some (EBool (eline t) (tok_eqb (ttype t) T_TRUE))
  | _ => None
  end.

Fixpoint ast (c : cst) : expr :=
  match c with
  | CAtom t => match atom_ast t with Some e => e | None => ENull end
  | CPar lp rp x => ast x
  | CBin o l r => EInfix (eline o) (tlit o) (ast l) (ast r)
  | CPre o x => EPrefix (eline o) (tlit o) (ast x)
  | CPost o x => EPostfix (eline o) (tlit o) (ast x)
  | CTern q col c a b => ETernary (eline q) (ast c) (ast a) (ast b)
  | CIdx lb rb x i => EIndex (eline lb) (ast x) (ast i)
  | CDot dot name x => EDot (eline dot) (ast x) (EIdent (eline name) (tlit name))
  | CCall dot name lp rp x args => ECall (eline name) (ast x) (tlit name) (map (fun p => ast (snd p)) args)
  | CArr lb rb els => EArr (eline lb) (map (fun p => ast (snd p)) els)
  end.

Definition INF : nat := 100.
Definition tprec (t : token) : nat := precOf (ttype t).

(* the lowest binding power exposed on the left edge of the tokens of c: the loop that reaches
   c's first operand must run below it *)
Fixpoint llev (c : cst) : nat :=
  match c with
  | CAtom _ | CPar _ _ _ | CPre _ _ | CArr _ _ _ => INF
  | CCall dot name lp rp x args => Nat.min (llev x) (tprec dot)
  | CBin o l r => Nat.min (llev l) (tprec o)
  | CPost o x => Nat.min (llev x) (tprec o)
  | CTern q col c a b => Nat.min (llev c) (tprec q)
  | CIdx lb rb x i => Nat.min (llev x) (tprec lb)
  | CDot dot name x => Nat.min (llev x) (tprec dot)
  end.

(* the binding power with which the last open operand of c would absorb a following operator *)
Fixpoint rlev (c : cst) : nat :=
  match c with
  | CAtom _ | CPar _ _ _ | CPost _ _ | CIdx _ _ _ _ | CDot _ _ _ | CCall _ _ _ _ _ _ | CArr _ _ _ => INF
  | CBin o l r => Nat.min (tprec o) (rlev r)
  | CPre o x => Nat.min P_PREFIX (rlev x)
  | CTern q col c a b => P_LOWEST
  end.

Definition wf_list_with (w : cst -> Prop) :=
  fix go (first : bool) (l : list (token * cst)) : Prop :=
    match l with
    | [] => True
    | (cm, a) :: l' => (first = true \/ ttype cm = T_COMMA) /\ w a /\ go false l'
    end.

Fixpoint wf (c : cst) : Prop :=
  match c with
  | CAtom t => atom_ast t <> None
  | CPar lp rp x => ttype lp = T_LPAREN /\ ttype rp = T_RPAREN /\ wf x
  | CBin o l r =>
    infix_of (ttype o) = Some IK_Infix /\ wf l /\ wf r /\
    (tprec o <= rlev l)%nat /\ (tprec o < llev r)%nat
  | CPre o x =>
    prefix_of (ttype o) = Some PK_Prefix /\ wf x /\ (P_PREFIX < llev x)%nat
  | CPost o x =>
    infix_of (ttype o) = Some IK_Postfix /\ wf x /\ (tprec o <= rlev x)%nat
  | CTern q col c a b =>
    ttype q = T_QUESTION /\ ttype col = T_COLON /\ wf c /\ wf a /\ wf b /\
    (P_TERNARY <= rlev c)%nat /\ (P_TERNARY < llev a)%nat
  | CIdx lb rb x i =>
    ttype lb = T_LBRACKET /\ ttype rb = T_RBRACKET /\ wf x /\ wf i /\ (P_INDEX <= rlev x)%nat
  | CDot dot name x =>
    ttype dot = T_DOT /\ ttype name = T_IDENT /\ wf x /\ (P_MEMBER_ACCESS <= rlev x)%nat
  | CCall dot name lp rp x args =>
    ttype dot = T_DOT /\ ttype name = T_IDENT /\ ttype lp = T_LPAREN /\ ttype rp = T_RPAREN /\
    wf x /\ (P_MEMBER_ACCESS <= rlev x)%nat /\ wf_list_with wf true args
  | CArr lb rb els =>
    ttype lb = T_LBRACKET /\ ttype rb = T_RBRACKET /\ wf_list_with wf true els
  end.

Definition wf_list := wf_list_with wf.

(* induction over trees with the argument lists *)
Fixpoint cst_ind' (P : cst -> Prop)
  (Hatom : forall t, P (CAtom t))
  (Hpar : forall lp rp x, P x -> P (CPar lp rp x))
  (Hbin : forall o l r, P l -> P r -> P (CBin o l r))
  (Hpre : forall o x, P x -> P (CPre o x))
  (Hpost : forall o x, P x -> P (CPost o x))
  (Htern : forall q col c a b, P c -> P a -> P b -> P (CTern q col c a b))
  (Hidx : forall lb rb x i, P x -> P i -> P (CIdx lb rb x i))
  (Hdot : forall dot name x, P x -> P (CDot dot name x))
  (Hcall : forall dot name lp rp x args, P x -> Forall (fun p => P (snd p)) args -> P (CCall dot name lp rp x args))
  (Harr : forall lb rb els, Forall (fun p => P (snd p)) els -> P (CArr lb rb els))
  (c : cst) {struct c} : P c :=
  let rec := cst_ind' P Hatom Hpar Hbin Hpre Hpost Htern Hidx Hdot Hcall Harr in
  let recl := fix go (l : list (token * cst)) : Forall (fun p => P (snd p)) l :=
    match l with
    | [] => Forall_nil _
    | p :: l' => Forall_cons p (rec (snd p)) (go l')
    end in
  match c with
  | CAtom t => Hatom t
  | CPar lp rp x => Hpar lp rp x (rec x)
  | CBin o l r => Hbin o l r (rec l) (rec r)
  | CPre o x => Hpre o x (rec x)
  | CPost o x => Hpost o x (rec x)
  | CTern q col c a b => Htern q col c a b (rec c) (rec a) (rec b)
  | CIdx lb rb x i => Hidx lb rb x i (rec x) (rec i)
  | CDot dot name x => Hdot dot name x (rec x)
  | CCall dot name lp rp x args => Hcall dot name lp rp x args (rec x) (recl args)
  | CArr lb rb els => Harr lb rb els (recl els)
  end.

(* the first token after the expression cannot continue a loop running at binding power lim *)
Definition stops (lim : nat) (rest : list token) : Prop :=
  match rest with
  | [] => False
  | t :: _ => inb (ttype t) expr_stop_tokens = true \/ (precOf (ttype t) <= lim)%nat \/ infix_of (ttype t) = None
  end.

Lemma stops_mono a b rest : stops a rest -> (a <= b)%nat -> stops b rest.
Proof. destruct rest as [|t r]; [auto|]. intros [H|[H|H]] L; [left|right; left|right; right]; auto; lia. Qed.

Lemma precOf_le_INF t : (precOf t <= INF)%nat.
Proof. destruct t; vm_compute; lia. Qed.

Lemma precOf_lt_INF t : (precOf t < INF)%nat.
Proof. destruct t; vm_compute; lia. Qed.

Lemma stops_INF rest : rest <> [] -> stops INF rest.
Proof. destruct rest as [|t r]; [congruence|]. intros _. right. left. apply precOf_le_INF. Qed.

(* ---------- states *)
Lemma setToks_setToks st a b : setToks (setToks st a) b = setToks st b.
Proof. reflexivity. Qed.

Lemma advance_cons st a b r : advance (setToks st (a :: b :: r)) = setToks st (b :: r).
Proof. reflexivity. Qed.

Lemma curT_cons st a r : curT (setToks st (a :: r)) = a.
Proof. reflexivity. Qed.

Lemma peekT_cons st a b r : peekT (setToks st (a :: b :: r)) = b.
Proof. reflexivity. Qed.

Lemma flat_nonempty c : exists a r, flat c = a :: r.
Proof.
  induction c using cst_ind'; cbn [flat]; try (eexists _, _; reflexivity);
    match goal with H : exists a r, flat ?x = _ |- context [flat ?x ++ _] =>
      let a := fresh in let r := fresh in destruct H as (a & r & ->); eexists _, _; reflexivity end.
Qed.

(* ---------- single steps of the parser on known tokens *)
Lemma infix_not_stop t k : infix_of t = Some k -> inb t expr_stop_tokens = false.
Proof. destruct t; (discriminate || reflexivity). Qed.

Lemma loop_stops f p left st a rest :
  stops p rest -> prattLoop (S f) p left (setToks st (a :: rest)) = POk left (setToks st (a :: rest)).
Proof.
  destruct rest as [|t r]; [intros []|]. intros H. cbn [prattLoop].
  unfold peekIn, peekPrecedence. rewrite peekT_cons.
  destruct (inb (ttype t) expr_stop_tokens) eqn:Es; cbn [negb andb]; [reflexivity|].
  destruct H as [H|[H|H]]; [congruence| |].
  - destruct (Nat.ltb_spec p (precOf (ttype t))); [lia|reflexivity].
  - destruct (p <? precOf (ttype t))%nat; [rewrite H|]; reflexivity.
Qed.

Lemma loop_takes f p left st a o more k :
  infix_of (ttype o) = Some k -> (p < tprec o)%nat ->
  prattLoop (S f) p left (setToks st (a :: o :: more)) =
  do (left', st1) <- parseInfix f k left (setToks st (o :: more)); prattLoop f p left' st1.
Proof.
  intros Hk Hp. cbn [prattLoop]. unfold peekIn, peekPrecedence. rewrite peekT_cons.
  rewrite (infix_not_stop _ _ Hk). cbn [negb andb].
  unfold tprec in Hp. destruct (Nat.ltb_spec p (precOf (ttype o))); [|lia].
  rewrite Hk. rewrite advance_cons. reflexivity.
Qed.

Lemma conv_ret {A} (F : nat -> pres A) a s n :
  (forall fuel, (n <= fuel)%nat -> F fuel = POk a s) -> conv F a s.
Proof. intro H. exists n. exact H. Qed.

Lemma conv_const {A} (a : A) s : conv (fun _ => POk a s) a s.
Proof. exists 0%nat. reflexivity. Qed.

Lemma conv_bind {A B} (F : nat -> pres A) (K : nat -> A -> pstate -> pres B) (G : nat -> pres B) a s b s2 :
  conv F a s -> conv (fun f => K f a s) b s2 ->
  (forall f, G (S f) = match F f with POk x s' => K f x s' | POOF => POOF end) -> conv G b s2.
Proof.
  intros (n1 & H1) (n2 & H2) HG. exists (S (Nat.max n1 n2)). intros fuel Hf.
  destruct fuel as [|f]; [lia|]. rewrite HG, H1 by lia. apply H2. lia.
Qed.

Lemma conv_ext {A} (F G : nat -> pres A) a s : (forall f, F f = G f) -> conv G a s -> conv F a s.
Proof. intros E (n & H). exists n. intros f Hf. rewrite E. apply H, Hf. Qed.

(* an atom is returned by its prefix function without moving *)
Lemma parsePrefix_atom t e :
  atom_ast t = Some e ->
  exists k, prefix_of (ttype t) = Some k /\
            forall f st r, parsePrefix (S f) k (setToks st (t :: r)) = POk e (setToks st (t :: r)).
Proof.
  unfold atom_ast. destruct (prefix_of (ttype t)) as [k|] eqn:Ek; [|discriminate].
  intro H. exists k. split; [reflexivity|]. intros f st r. cbn [parsePrefix]. rewrite curT_cons.
  destruct k; try discriminate H.
  - injection H as <-. reflexivity.
  - destruct (parseInt (tlit t)); [|discriminate H]. injection H as <-. reflexivity.
  - destruct (Nat.eqb (count_dots (tlit t)) 1); [|discriminate H]. injection H as <-. reflexivity.
  - injection H as <-. reflexivity.
  - injection H as <-. reflexivity.
  - injection H as <-. reflexivity.
Qed.

Lemma parseExpression_prefix f p st a r k :
  prefix_of (ttype a) = Some k ->
  parseExpression (S f) p (setToks st (a :: r)) =
  match parsePrefix f k (setToks st (a :: r)) with POk lft st1 => prattLoop f p lft st1 | POOF => POOF end.
Proof. intro H. cbn [parseExpression]. rewrite curT_cons, H. reflexivity. Qed.

(* a property access at the right end must not be followed by "(" (that would be a call) *)
Fixpoint rdot (c : cst) : bool :=
  match c with
  | CDot _ _ _ => true
  | CBin _ _ r => rdot r
  | CPre _ x => rdot x
  | CTern _ _ _ _ b => rdot b
  | _ => false
  end.

Definition not_lparen (rest : list token) : Prop :=
  match rest with t :: _ => ttype t <> T_LPAREN | [] => True end.

Definition okafter (c : cst) (rest : list token) : Prop :=
  stops (rlev c) rest /\ (rdot c = true -> not_lparen rest).

Definition Gs (c : cst) : Prop :=
  forall p st rest r s, (p < llev c)%nat -> okafter c rest ->
  conv (fun f => prattLoop f p (ast c) (setToks st (lastc c :: rest))) r s ->
  conv (fun f => parseExpression f p (setToks st (flat c ++ rest))) r s.

(* parsing c and stopping *)
Lemma roundtrip_of_Gs c : Gs c ->
  forall p st rest, (p < llev c)%nat -> okafter c rest -> stops p rest ->
  conv (fun f => parseExpression f p (setToks st (flat c ++ rest))) (ast c) (setToks st (lastc c :: rest)).
Proof.
  intros G p st rest Hp Hr Hs. apply G; [exact Hp|exact Hr|].
  exists 1%nat. intros fuel Hf. destruct fuel as [|f]; [lia|]. apply loop_stops, Hs.
Qed.

Lemma infix_prec_ge t : infix_of t = Some IK_Infix -> (3 <= precOf t)%nat.
Proof. destruct t; (discriminate || (intros _; vm_compute; lia)). Qed.
Lemma postfix_prec t : infix_of t = Some IK_Postfix -> precOf t = P_POSTFIX.
Proof. destruct t; (discriminate || (intros _; reflexivity)). Qed.

Lemma llev_gt_lowest c : wf c -> (P_LOWEST < llev c)%nat.
Proof.
  induction c as [t|lp rp c IHc|o c1 c2 IHc1 IHc2|o c IHc|o c IHc|q col c1 c2 c3 IHc1 IHc2 IHc3|lb rb c1 c2 IHc1 IHc2|dot name c IHc|dot name lp rp c args IHc IHargs|lb rb els IHels] using cst_ind';
    cbn [wf llev]; unfold tprec, INF, P_LOWEST.
  - lia.
  - lia.
  - intros (Ho & W1 & W2 & _). apply infix_prec_ge in Ho. specialize (IHc1 W1). unfold P_LOWEST in *. lia.
  - lia.
  - intros (Ho & W & _). rewrite (postfix_prec _ Ho). specialize (IHc W). unfold P_LOWEST, P_POSTFIX in *. lia.
  - intros (Hq & _ & W & _). rewrite Hq. specialize (IHc1 W). unfold P_LOWEST in *. change (precOf T_QUESTION) with 2%nat. lia.
  - intros (Hb & _ & W & _). rewrite Hb. specialize (IHc1 W). unfold P_LOWEST in *. change (precOf T_LBRACKET) with 10%nat. lia.
  - intros (Hd & _ & W & _). rewrite Hd. specialize (IHc W). unfold P_LOWEST in *. change (precOf T_DOT) with 7%nat. lia.
  - intros (Hd & _ & _ & _ & W & _). rewrite Hd. specialize (IHc W). unfold P_LOWEST in *. change (precOf T_DOT) with 7%nat. lia.
  - lia.
Qed.


Lemma stops_stop_token lim t rest : inb (ttype t) expr_stop_tokens = true -> stops lim (t :: rest).
Proof. intro H. left. exact H. Qed.

Lemma expectPeek_ok st a b r t :
  ttype b = t -> expectPeek (setToks st (a :: b :: r)) t = (true, setToks st (b :: r)).
Proof.
  intro H. unfold expectPeek, peekIs. rewrite peekT_cons, H.
  assert (E : tok_eqb t t = true) by (unfold tok_eqb; apply Nat.eqb_refl). rewrite E. reflexivity.
Qed.

Lemma expectPeek_ok_peekIs st a b r t :
  ttype b = t -> peekIs (setToks st (a :: b :: r)) t = true /\ True.
Proof. intro H. split; [|exact I]. unfold peekIs. rewrite peekT_cons, H. unfold tok_eqb. apply Nat.eqb_refl. Qed.

Lemma G_atom t : atom_ast t <> None -> Gs (CAtom t).
Proof.
  intros W p st rest r s Hp Hr H. cbn [flat ast lastc app] in *.
  destruct (atom_ast t) as [e|] eqn:E; [|congruence].
  destruct (parsePrefix_atom t e E) as (k & Hk & Hpre).
  eapply (conv_bind (fun f => parsePrefix f k (setToks st (t :: rest)))
                    (fun f lft st1 => prattLoop f p lft st1)).
  - exists 1%nat. intros fuel Hf. destruct fuel as [|f]; [lia|]. apply Hpre.
  - exact H.
  - intro f. apply parseExpression_prefix, Hk.
Qed.

Lemma G_par lp rp x :
  Gs x -> wf x -> ttype lp = T_LPAREN -> ttype rp = T_RPAREN -> Gs (CPar lp rp x).
Proof.
  intros Gx Wx Hlp Hrp p st rest r s Hp Hr H. cbn [flat ast lastc] in *.
  change ((lp :: flat x ++ [rp]) ++ rest) with (lp :: (flat x ++ [rp]) ++ rest).
  rewrite <- app_assoc. cbn [app].
  assert (Srp : forall lim, stops lim (rp :: rest)) by (intro lim; apply stops_stop_token; rewrite Hrp; reflexivity).
  eapply (conv_bind (fun f => parsePrefix f PK_Grouped (setToks st (lp :: flat x ++ rp :: rest)))
                    (fun f lft st1 => prattLoop f p lft st1) _ (ast x) (setToks st (rp :: rest))).
  - eapply (conv_bind (fun f => parseExpression f P_LOWEST (setToks st (flat x ++ rp :: rest)))
                      (fun f e st1 => let '(ok, st2) := expectPeek st1 T_RPAREN in
                                      if ok then POk e st2 else POk ENull st2)).
    + apply (roundtrip_of_Gs x Gx); [apply llev_gt_lowest, Wx| |apply Srp].
      split; [apply Srp|]. intros _. cbn [not_lparen]. rewrite Hrp. discriminate.
    + cbv beta. rewrite (expectPeek_ok _ _ _ _ _ Hrp). apply conv_const.
    + intro f. cbn [parsePrefix]. destruct (flat_nonempty x) as (a & r' & ->). reflexivity.
  - exact H.
  - intro f. apply parseExpression_prefix. rewrite Hlp. reflexivity.
Qed.

Lemma first_not_rbraces c : wf c -> exists a r, flat c = a :: r /\ tok_eqb (ttype a) T_RBRACES = false.
Proof.
  induction c as [t|lp rp c IHc|o c1 c2 IHc1 IHc2|o c IHc|o c IHc|q col c1 c2 c3 IHc1 IHc2 IHc3|lb rb c1 c2 IHc1 IHc2|dot name c IHc|dot name lp rp c args IHc IHargs|lb rb els IHels] using cst_ind';
    cbn [wf flat].
  - intro W. exists t, []. split; [reflexivity|]. unfold atom_ast in W.
    destruct (ttype t); try reflexivity. cbn in W. congruence.
  - intros (H & _). exists lp, (flat c ++ [rp]). split; [reflexivity|]. rewrite H. reflexivity.
  - intros (_ & W & _). destruct (IHc1 W) as (a & r & -> & E). exists a, (r ++ o :: flat c2). split; [reflexivity|exact E].
  - intros (H & _). exists o, (flat c). split; [reflexivity|]. destruct (ttype o); try discriminate H; reflexivity.
  - intros (_ & W & _). destruct (IHc W) as (a & r & -> & E). exists a, (r ++ [o]). split; [reflexivity|exact E].
  - intros (_ & _ & W & _). destruct (IHc1 W) as (a & r & -> & E). eexists a, _. split; [reflexivity|exact E].
  - intros (_ & _ & W & _). destruct (IHc1 W) as (a & r & -> & E). eexists a, _. split; [reflexivity|exact E].
  - intros (_ & _ & W & _). destruct (IHc W) as (a & r & -> & E). eexists a, _. split; [reflexivity|exact E].
  - intros (_ & _ & _ & _ & W & _). destruct (IHc W) as (a & r & -> & E). eexists a, _. split; [reflexivity|exact E].
  - intros (H & _). eexists lb, _. split; [reflexivity|]. rewrite H. reflexivity.
Qed.

Lemma G_bin o l r0 :
  Gs l -> Gs r0 -> wf (CBin o l r0) -> Gs (CBin o l r0).
Proof.
  intros Gl Gr (Ho & Wl & Wr & Hl & Hr0) p st rest r s Hp (Hr & Hd) H. cbn [flat ast lastc llev rlev rdot] in *.
  rewrite <- app_assoc. cbn [app].
  apply Gl; [lia| |].
  { split; [eapply stops_mono; [right; left; apply Nat.le_refl|exact Hl]|].
    intros _. cbn [not_lparen]. intro E. rewrite E in Ho. discriminate Ho. }
  (* the loop, standing on the last token of l, takes the operator *)
  eapply (conv_bind (fun f => parseInfix f IK_Infix (ast l) (setToks st (o :: flat r0 ++ rest)))
                    (fun f lft st1 => prattLoop f p lft st1) _
                    (EInfix (eline o) (tlit o) (ast l) (ast r0)) (setToks st (lastc r0 :: rest))).
  - destruct (first_not_rbraces r0 Wr) as (a & r' & Ea & Ha).
    eapply (conv_bind (fun f => parseExpression f (tprec o) (setToks st (flat r0 ++ rest)))
                      (fun f e st1 => POk (EInfix (eline o) (tlit o) (ast l) e) st1)).
    + apply (roundtrip_of_Gs r0 Gr); [exact Hr0| |].
      * split; [eapply stops_mono; [exact Hr|lia]|exact Hd].
      * eapply stops_mono; [exact Hr|lia].
    + apply conv_const.
    + intro f. cbn [parseInfix]. rewrite curT_cons. unfold curPrecedence. rewrite curT_cons.
      rewrite Ea. cbn [app]. rewrite advance_cons. unfold curIs. rewrite curT_cons, Ha. reflexivity.
  - exact H.
  - intro f. apply loop_takes; [exact Ho|lia].
Qed.

Lemma conv_bind0 {A B} (F : nat -> pres A) (K : nat -> A -> pstate -> pres B) a s b s2 :
  conv F a s -> conv (fun f => K f a s) b s2 ->
  conv (fun f => match F f with POk x s' => K f x s' | POOF => POOF end) b s2.
Proof.
  intros (n1 & H1) (n2 & H2). exists (Nat.max n1 n2). intros fuel Hf.
  rewrite H1 by lia. apply H2. lia.
Qed.

Lemma precOf_ge_lowest t : (P_LOWEST <= precOf t)%nat.
Proof. destruct t; vm_compute; lia. Qed.

Lemma rlev_ge_lowest c : (P_LOWEST <= rlev c)%nat.
Proof.
  induction c as [t|lp rp c IHc|o c1 c2 IHc1 IHc2|o c IHc|o c IHc|q col c1 c2 c3 IHc1 IHc2 IHc3|lb rb c1 c2 IHc1 IHc2|dot name c IHc|dot name lp rp c args IHc IHargs|lb rb els IHels] using cst_ind';
    cbn [rlev]; unfold tprec; try (unfold INF, P_LOWEST; lia).
  - pose proof (precOf_ge_lowest (ttype o)). lia.
  - unfold P_PREFIX, P_LOWEST in *. lia.
Qed.

Lemma G_pre o x : Gs x -> wf (CPre o x) -> Gs (CPre o x).
Proof.
  intros Gx (Ho & Wx & Hx) p st rest r s Hp (Hr & Hd) H. cbn [flat ast lastc llev rlev rdot app] in *.
  eapply (conv_bind (fun f => parsePrefix f PK_Prefix (setToks st (o :: flat x ++ rest)))
                    (fun f lft st1 => prattLoop f p lft st1) _
                    (EPrefix (eline o) (tlit o) (ast x)) (setToks st (lastc x :: rest))).
  - eapply (conv_bind (fun f => parseExpression f P_PREFIX (setToks st (flat x ++ rest)))
                      (fun f e st1 => POk (EPrefix (eline o) (tlit o) e) st1)).
    + apply (roundtrip_of_Gs x Gx); [exact Hx| |eapply stops_mono; [exact Hr|lia]].
      split; [eapply stops_mono; [exact Hr|lia]|exact Hd].
    + apply conv_const.
    + intro f. cbn [parsePrefix]. rewrite curT_cons. destruct (flat_nonempty x) as (a & r' & ->). reflexivity.
  - exact H.
  - intro f. apply parseExpression_prefix, Ho.
Qed.

Lemma infix_not_lparen t k : infix_of t = Some k -> t <> T_LPAREN.
Proof. intros H E. rewrite E in H. discriminate H. Qed.

Lemma G_post o x : Gs x -> wf (CPost o x) -> Gs (CPost o x).
Proof.
  intros Gx (Ho & Wx & Hx) p st rest r s Hp _ H. cbn [flat ast lastc llev rlev rdot] in *.
  rewrite <- app_assoc. cbn [app].
  apply Gx; [lia| |].
  { split; [right; left; exact Hx|]. intros _. cbn [not_lparen]. exact (infix_not_lparen _ _ Ho). }
  eapply (conv_bind (fun f => parseInfix f IK_Postfix (ast x) (setToks st (o :: rest)))
                    (fun f lft st1 => prattLoop f p lft st1) _
                    (EPostfix (eline o) (tlit o) (ast x)) (setToks st (o :: rest))).
  - exists 1%nat. intros fuel Hf. destruct fuel as [|f]; [lia|]. cbn [parseInfix]. rewrite curT_cons. reflexivity.
  - exact H.
  - intro f. apply loop_takes; [exact Ho|lia].
Qed.

Lemma G_tern q col c a b : Gs c -> Gs a -> Gs b -> wf (CTern q col c a b) -> Gs (CTern q col c a b).
Proof.
  intros Gc Ga Gb (Hq & Hcol & Wc & Wa & Wb & Hc & Ha) p st rest r s Hp (Hr & Hd) H.
  cbn [flat ast lastc llev rlev rdot] in *.
  rewrite <- app_assoc. cbn [app]. rewrite <- app_assoc. cbn [app].
  assert (Pq : tprec q = P_TERNARY) by (unfold tprec; rewrite Hq; reflexivity).
  assert (Iq : infix_of (ttype q) = Some IK_Ternary) by (rewrite Hq; reflexivity).
  apply Gc; [lia| |].
  { split; [right; left; fold (tprec q); rewrite Pq; exact Hc|].
    intros _. cbn [not_lparen]. rewrite Hq. discriminate. }
  assert (Scol : forall lim more, stops lim (col :: more)).
  { intros lim more. right. right. rewrite Hcol. reflexivity. }
  eapply (conv_bind (fun f => parseInfix f IK_Ternary (ast c) (setToks st (q :: flat a ++ col :: flat b ++ rest)))
                    (fun f lft st1 => prattLoop f p lft st1) _
                    (ETernary (eline q) (ast c) (ast a) (ast b)) (setToks st (lastc b :: rest))).
  - eapply (conv_bind (fun f => parseExpression f P_TERNARY (setToks st (flat a ++ col :: flat b ++ rest)))
                      (fun f a' st1 =>
                         let '(ok, st2) := expectPeek st1 T_COLON in
                         if negb ok then POk ENull st2 else
                         match parseExpression f P_LOWEST (advance st2) with
                         | POk b' st3 => POk (ETernary (eline q) (ast c) a' b') st3
                         | POOF => POOF
                         end) _ (ast a) (setToks st (lastc a :: col :: flat b ++ rest))).
    + apply (roundtrip_of_Gs a Ga); [exact Ha| |apply Scol].
      split; [apply Scol|]. intros _. cbn [not_lparen]. rewrite Hcol. discriminate.
    + cbv beta. rewrite (expectPeek_ok _ _ _ _ _ Hcol). cbn [negb].
      destruct (flat_nonempty b) as (b0 & br & Eb).
      assert (Ea : advance (setToks st (col :: flat b ++ rest)) = setToks st (flat b ++ rest)).
      { rewrite Eb. reflexivity. }
      rewrite Ea.
      eapply (conv_bind0 (fun f => parseExpression f P_LOWEST (setToks st (flat b ++ rest)))
                        (fun f b' st3 => POk (ETernary (eline q) (ast c) (ast a) b') st3)).
      * apply (roundtrip_of_Gs b Gb); [apply llev_gt_lowest, Wb| |exact Hr].
        split; [eapply stops_mono; [exact Hr|apply rlev_ge_lowest]|exact Hd].
      * apply conv_const.
    + intro f. cbn [parseInfix]. rewrite curT_cons.
      destruct (flat_nonempty a) as (a0 & ar & ->). reflexivity.
  - exact H.
  - intro f. apply loop_takes; [exact Iq|lia].
Qed.

Lemma G_idx lb rb x i : Gs x -> Gs i -> wf (CIdx lb rb x i) -> Gs (CIdx lb rb x i).
Proof.
  intros Gx Gi (Hlb & Hrb & Wx & Wi & Hx) p st rest r s Hp _ H.
  cbn [flat ast lastc llev rlev rdot] in *.
  rewrite <- app_assoc. cbn [app]. rewrite <- app_assoc. cbn [app].
  assert (Pl : tprec lb = P_INDEX) by (unfold tprec; rewrite Hlb; reflexivity).
  assert (Il : infix_of (ttype lb) = Some IK_Index) by (rewrite Hlb; reflexivity).
  apply Gx; [lia| |].
  { split; [right; left; fold (tprec lb); rewrite Pl; exact Hx|].
    intros _. cbn [not_lparen]. rewrite Hlb. discriminate. }
  assert (Srb : forall lim more, stops lim (rb :: more)).
  { intros lim more. right. right. rewrite Hrb. reflexivity. }
  eapply (conv_bind (fun f => parseInfix f IK_Index (ast x) (setToks st (lb :: flat i ++ rb :: rest)))
                    (fun f lft st1 => prattLoop f p lft st1) _
                    (EIndex (eline lb) (ast x) (ast i)) (setToks st (rb :: rest))).
  - eapply (conv_bind (fun f => parseExpression f P_LOWEST (setToks st (flat i ++ rb :: rest)))
                      (fun f i' st1 =>
                         let '(ok, st2) := expectPeek st1 T_RBRACKET in
                         if ok then POk (EIndex (eline lb) (ast x) i') st2 else POk ENull st2)
                      _ (ast i) (setToks st (lastc i :: rb :: rest))).
    + apply (roundtrip_of_Gs i Gi); [apply llev_gt_lowest, Wi| |apply Srb].
      split; [apply Srb|]. intros _. cbn [not_lparen]. rewrite Hrb. discriminate.
    + cbv beta. rewrite (expectPeek_ok _ _ _ _ _ Hrb). apply conv_const.
    + intro f. cbn [parseInfix]. rewrite curT_cons.
      destruct (flat_nonempty i) as (a0 & ar & ->). reflexivity.
  - exact H.
  - intro f. apply loop_takes; [exact Il|lia].
Qed.

Lemma G_dot dot name x : Gs x -> wf (CDot dot name x) -> Gs (CDot dot name x).
Proof.
  intros Gx (Hdot & Hname & Wx & Hx) p st rest r s Hp (Hr & Hd) H.
  cbn [flat ast lastc llev rlev rdot] in *.
  rewrite <- app_assoc. cbn [app].
  assert (Pd : tprec dot = P_MEMBER_ACCESS) by (unfold tprec; rewrite Hdot; reflexivity).
  assert (Id : infix_of (ttype dot) = Some IK_Dot) by (rewrite Hdot; reflexivity).
  apply Gx; [lia| |].
  { split; [right; left; fold (tprec dot); rewrite Pd; exact Hx|].
    intros _. cbn [not_lparen]. rewrite Hdot. discriminate. }
  eapply (conv_bind (fun f => parseInfix f IK_Dot (ast x) (setToks st (dot :: name :: rest)))
                    (fun f lft st1 => prattLoop f p lft st1) _
                    (EDot (eline dot) (ast x) (EIdent (eline name) (tlit name))) (setToks st (name :: rest))).
  - exists 1%nat. intros fuel Hf. destruct fuel as [|f]; [lia|]. cbn [parseInfix]. rewrite curT_cons.
    rewrite (expectPeek_ok _ _ _ _ _ Hname). cbn [negb].
    assert (Np : peekIs (setToks st (name :: rest)) T_LPAREN = false).
    { specialize (Hd eq_refl). unfold peekIs, peekT. cbn [toks setToks].
      destruct rest as [|t0 r0].
      - rewrite Hname. reflexivity.
      - cbn [not_lparen] in Hd. destruct (ttype t0); try reflexivity. congruence. }
    rewrite Np. rewrite curT_cons. reflexivity.
  - exact H.
  - intro f. apply loop_takes; [exact Id|lia].
Qed.


(* ---------- comma-separated lists: call arguments and array elements *)
Lemma first_prefix c : wf c -> exists a r k, flat c = a :: r /\ prefix_of (ttype a) = Some k.
Proof.
  induction c as [t|lp rp c IHc|o c1 c2 IHc1 IHc2|o c IHc|o c IHc|q col c1 c2 c3 IHc1 IHc2 IHc3|lb rb c1 c2 IHc1 IHc2|dot name c IHc|dot name lp rp c args IHc IHargs|lb rb els IHels] using cst_ind';
    cbn [wf flat].
  - intro W. unfold atom_ast in W. destruct (prefix_of (ttype t)) as [k|] eqn:E; [|congruence].
    exists t, [], k. split; [reflexivity|exact E].
  - intros (H & _). eexists lp, _, PK_Grouped. split; [reflexivity|]. rewrite H. reflexivity.
  - intros (_ & W & _). destruct (IHc1 W) as (a & r & k & -> & E). eexists a, _, k. split; [reflexivity|exact E].
  - intros (H & _). eexists o, _, PK_Prefix. split; [reflexivity|exact H].
  - intros (_ & W & _). destruct (IHc W) as (a & r & k & -> & E). eexists a, _, k. split; [reflexivity|exact E].
  - intros (_ & _ & W & _). destruct (IHc1 W) as (a & r & k & -> & E). eexists a, _, k. split; [reflexivity|exact E].
  - intros (_ & _ & W & _). destruct (IHc1 W) as (a & r & k & -> & E). eexists a, _, k. split; [reflexivity|exact E].
  - intros (_ & _ & W & _). destruct (IHc W) as (a & r & k & -> & E). eexists a, _, k. split; [reflexivity|exact E].
  - intros (_ & _ & _ & _ & W & _). destruct (IHc W) as (a & r & k & -> & E). eexists a, _, k. split; [reflexivity|exact E].
  - intros (H & _). eexists lb, _, PK_Array. split; [reflexivity|]. rewrite H. reflexivity.
Qed.

Definition asts (l : list (token * cst)) : list expr := map (fun p => ast (snd p)) l.

Section Lists.
Variable e : tok.            (* the closing token type: ")" or "]" *)
Variable cl : token.
Hypothesis Hcl : ttype cl = e.
Hypothesis e_not_comma : tok_eqb e T_COMMA = false.
Hypothesis e_not_prefix : prefix_of e = None.
Hypothesis e_closes : forall lim more, stops lim (cl :: more).
Hypothesis e_not_lparen : e <> T_LPAREN.

Lemma peekIs_cons st a b r t : peekIs (setToks st (a :: b :: r)) t = tok_eqb (ttype b) t.
Proof. unfold peekIs. rewrite peekT_cons. reflexivity. Qed.

Lemma tok_eqb_refl t : tok_eqb t t = true.
Proof. unfold tok_eqb. apply Nat.eqb_refl. Qed.

Lemma tok_eqb_neq a b : a <> b -> tok_eqb a b = false.
Proof. intro N. destruct (tok_eqb a b) eqn:E; [|reflexivity]. exfalso. apply N. destruct a, b; (reflexivity || (vm_compute in E; discriminate E)). Qed.

Lemma stops_list lim l rest : wf_list false l -> stops lim (flat_list false l ++ cl :: rest).
Proof.
  destruct l as [|[cm a] l']; [intros _; apply e_closes|].
  intros ([X|X] & _); [discriminate X|]. cbn. right. right. rewrite X. reflexivity.
Qed.

Lemma not_lparen_list l rest : wf_list false l -> not_lparen (flat_list false l ++ cl :: rest).
Proof.
  destruct l as [|[cm a] l']; [intros _; cbn; rewrite Hcl; exact e_not_lparen|].
  intros ([X|X] & _); [discriminate X|]. cbn. rewrite X. discriminate.
Qed.

Lemma loop_rest st rest : forall l acc prev,
  wf_list false l -> Forall (fun p => Gs (snd p)) l -> Forall (fun p => wf (snd p)) l ->
  conv (fun f => exprListLoop f e acc (setToks st (prev :: flat_list false l ++ cl :: rest)))
       (Some (rev acc ++ asts l)) (setToks st (cl :: rest)).
Proof.
  induction l as [|[cm a] l' IH]; intros acc prev W FG FW.
  - cbn [flat_list flat_list_with app asts map]. rewrite app_nil_r.
    exists 1%nat. intros fuel Hf. destruct fuel as [|f]; [lia|]. cbn [exprListLoop].
    rewrite peekIs_cons, Hcl, e_not_comma. rewrite (expectPeek_ok _ _ _ _ _ Hcl). reflexivity.
  - destruct W as ([X|Hcm] & Wa & W'); [discriminate X|].
    apply Forall_cons_iff in FG as [Ga FG']. apply Forall_cons_iff in FW as [_ FW']. cbn [snd] in *.
    change (flat_list false ((cm, a) :: l')) with ([cm] ++ flat a ++ flat_list false l').
    cbn [app]. rewrite <- app_assoc.
    destruct (first_prefix a Wa) as (a0 & ar & k & Ea & Ek).
    eapply (conv_bind (fun f => parseExpression f P_LOWEST (setToks st (flat a ++ flat_list false l' ++ cl :: rest)))
                      (fun f x s' => exprListLoop f e (x :: acc) s') _
                      (ast a) (setToks st (lastc a :: flat_list false l' ++ cl :: rest))).
    + apply (roundtrip_of_Gs a Ga); [apply llev_gt_lowest, Wa| |apply stops_list, W'].
      split; [apply stops_list, W'|]. intros _. apply not_lparen_list, W'.
    + cbv beta. specialize (IH (ast a :: acc) (lastc a) W' FG' FW').
      cbn [rev asts map snd] in IH |- *. rewrite <- app_assoc in IH. exact IH.
    + intro f. cbn [exprListLoop]. rewrite peekIs_cons, Hcm. change (tok_eqb T_COMMA T_COMMA) with true.
      cbv iota. rewrite advance_cons. rewrite Ea. cbn [app]. rewrite peekIs_cons.
      assert (N : tok_eqb (ttype a0) e = false).
      { apply tok_eqb_neq. intro X. rewrite X in Ek. rewrite e_not_prefix in Ek. discriminate Ek. }
      rewrite N. rewrite advance_cons. reflexivity.
Qed.

Lemma list_all st op rest l :
  wf_list true l -> Forall (fun p => Gs (snd p)) l -> Forall (fun p => wf (snd p)) l ->
  conv (fun f => parseExpressionList f e (setToks st (op :: flat_list true l ++ cl :: rest)))
       (Some (asts l)) (setToks st (cl :: rest)).
Proof.
  intros W FG FW. destruct l as [|[cm a] l'].
  - cbn [flat_list flat_list_with app asts map].
    exists 1%nat. intros fuel Hf. destruct fuel as [|f]; [lia|]. cbn [parseExpressionList].
    rewrite peekIs_cons, Hcl, tok_eqb_refl. rewrite advance_cons. reflexivity.
  - destruct W as (_ & Wa & W').
    apply Forall_cons_iff in FG as [Ga FG']. apply Forall_cons_iff in FW as [_ FW']. cbn [snd] in *.
    change (flat_list true ((cm, a) :: l')) with ([] ++ flat a ++ flat_list false l').
    cbn [app]. rewrite <- app_assoc.
    destruct (first_prefix a Wa) as (a0 & ar & k & Ea & Ek).
    eapply (conv_bind (fun f => parseExpression f P_LOWEST (setToks st (flat a ++ flat_list false l' ++ cl :: rest)))
                      (fun f x s' => exprListLoop f e [x] s') _
                      (ast a) (setToks st (lastc a :: flat_list false l' ++ cl :: rest))).
    + apply (roundtrip_of_Gs a Ga); [apply llev_gt_lowest, Wa| |apply stops_list, W'].
      split; [apply stops_list, W'|]. intros _. apply not_lparen_list, W'.
    + cbv beta. exact (loop_rest st rest l' [ast a] (lastc a) W' FG' FW').
    + intro f. cbn [parseExpressionList]. rewrite Ea. cbn [app]. rewrite peekIs_cons.
      assert (N : tok_eqb (ttype a0) e = false).
      { apply tok_eqb_neq. intro X. rewrite X in Ek. rewrite e_not_prefix in Ek. discriminate Ek. }
      rewrite N. rewrite advance_cons. reflexivity.
Qed.
End Lists.


Lemma close_stops t (cl : token) : ttype cl = t -> (t = T_RPAREN \/ t = T_RBRACKET) -> forall lim more, stops lim (cl :: more).
Proof. intros H [->| ->] lim more; right; right; rewrite H; reflexivity. Qed.

Lemma G_call dot name lp rp x args :
  Gs x -> Forall (fun p => Gs (snd p)) args -> Forall (fun p => wf (snd p)) args ->
  wf (CCall dot name lp rp x args) -> Gs (CCall dot name lp rp x args).
Proof.
  intros Gx FG FW (Hdot & Hname & Hlp & Hrp & Wx & Hx & Wargs) p st rest r s Hp _ H.
  cbn [flat ast lastc llev rlev rdot] in *. fold (flat_list true args). fold (asts args) in H.
  rewrite <- app_assoc. cbn [app]. rewrite <- app_assoc. cbn [app].
  assert (Pd : tprec dot = P_MEMBER_ACCESS) by (unfold tprec; rewrite Hdot; reflexivity).
  assert (Id : infix_of (ttype dot) = Some IK_Dot) by (rewrite Hdot; reflexivity).
  apply Gx; [lia| |].
  { split; [right; left; fold (tprec dot); rewrite Pd; exact Hx|].
    intros _. cbn [not_lparen]. rewrite Hdot. discriminate. }
  eapply (conv_bind (fun f => parseInfix f IK_Dot (ast x) (setToks st (dot :: name :: lp :: flat_list true args ++ rp :: rest)))
                    (fun f lft st1 => prattLoop f p lft st1) _
                    (ECall (eline name) (ast x) (tlit name) (asts args)) (setToks st (rp :: rest))).
  - eapply (conv_bind (fun f => parseExpressionList f T_RPAREN (setToks st (lp :: flat_list true args ++ rp :: rest)))
                      (fun f a st3 => POk (ECall (eline name) (ast x) (tlit name) (match a with Some l => l | None => [] end)) st3)
                      _ (Some (asts args)) (setToks st (rp :: rest))).
    + apply (list_all T_RPAREN rp Hrp eq_refl eq_refl); try assumption.
      * apply (close_stops T_RPAREN rp Hrp). left; reflexivity.
      * discriminate.
    + apply conv_const.
    + intro f. cbn [parseInfix]. rewrite curT_cons.
      rewrite (expectPeek_ok _ _ _ _ _ Hname). cbn [negb].
      rewrite peekIs_cons, Hlp. change (tok_eqb T_LPAREN T_LPAREN) with true. cbv iota.
      rewrite (expectPeek_ok _ _ _ _ _ Hlp). cbn [negb]. rewrite curT_cons. reflexivity.
  - exact H.
  - intro f. apply loop_takes; [exact Id|lia].
Qed.

Lemma G_arr lb rb els :
  Forall (fun p => Gs (snd p)) els -> Forall (fun p => wf (snd p)) els ->
  wf (CArr lb rb els) -> Gs (CArr lb rb els).
Proof.
  intros FG FW (Hlb & Hrb & Wels) p st rest r s Hp _ H.
  cbn [flat ast lastc llev rlev rdot] in *. fold (flat_list true els). fold (asts els) in H.
  change ((lb :: flat_list true els ++ [rb]) ++ rest) with (lb :: (flat_list true els ++ [rb]) ++ rest).
  rewrite <- app_assoc. cbn [app].
  eapply (conv_bind (fun f => parsePrefix f PK_Array (setToks st (lb :: flat_list true els ++ rb :: rest)))
                    (fun f lft st1 => prattLoop f p lft st1) _
                    (EArr (eline lb) (asts els)) (setToks st (rb :: rest))).
  - eapply (conv_bind (fun f => parseExpressionList f T_RBRACKET (setToks st (lb :: flat_list true els ++ rb :: rest)))
                      (fun f a st1 => POk (EArr (eline lb) (match a with Some l => l | None => [] end)) st1)
                      _ (Some (asts els)) (setToks st (rb :: rest))).
    + apply (list_all T_RBRACKET rb Hrb eq_refl eq_refl); try assumption.
      * apply (close_stops T_RBRACKET rb Hrb). right; reflexivity.
      * discriminate.
    + apply conv_const.
    + intro f. cbn [parsePrefix]. rewrite curT_cons. reflexivity.
  - exact H.
  - intro f. apply parseExpression_prefix. rewrite Hlb. reflexivity.
Qed.

Lemma list_Gs b l :
  Forall (fun p => wf (snd p) -> Gs (snd p)) l -> wf_list b l ->
  Forall (fun p => Gs (snd p)) l /\ Forall (fun p => wf (snd p)) l.
Proof.
  revert b. induction l as [|[cm a] l IH]; intros b F W; [split; constructor|].
  apply Forall_cons_iff in F as [Fa F']. destruct W as (_ & Wa & W').
  destruct (IH false F' W') as [A B]. split; constructor; cbn [snd]; auto.
Qed.

(* ---------- the theorem *)
Theorem pratt_groups c : wf c -> Gs c.
Proof.
  induction c as [t|lp rp c IHc|o c1 c2 IHc1 IHc2|o c IHc|o c IHc|q col c1 c2 c3 IHc1 IHc2 IHc3|lb rb c1 c2 IHc1 IHc2|dot name c IHc|dot name lp rp c args IHc IHargs|lb rb els IHels] using cst_ind';
    intro W.
  - apply G_atom, W.
  - destruct W as (A & B & C). apply G_par; auto.
  - pose proof W as (_ & A & B & _). apply G_bin; auto.
  - pose proof W as (_ & A & _). apply G_pre; auto.
  - pose proof W as (_ & A & _). apply G_post; auto.
  - pose proof W as (_ & _ & A & B & C & _). apply G_tern; auto.
  - pose proof W as (_ & _ & A & B & _). apply G_idx; auto.
  - pose proof W as (_ & _ & A & _). apply G_dot; auto.
  - pose proof W as (_ & _ & _ & _ & A & _ & B). destruct (list_Gs true args IHargs B) as [FG FW].
    apply G_call; auto.
  - pose proof W as (_ & _ & B). destruct (list_Gs true els IHels B) as [FG FW].
    apply G_arr; auto.
Qed.

(* for every well-formed concrete syntax tree: its tokens, followed by something that cannot
   continue an expression, parse to its AST, and the parser stops on its last token *)
Theorem parse_of_tokens_is_the_tree c st rest :
  wf c -> stops P_LOWEST rest -> (rdot c = true -> not_lparen rest) ->
  conv (fun f => parseExpression f P_LOWEST (setToks st (flat c ++ rest))) (ast c) (setToks st (lastc c :: rest)).
Proof.
  intros W S D. apply (roundtrip_of_Gs c (pratt_groups c W)); [apply llev_gt_lowest, W| |exact S].
  split; [eapply stops_mono; [exact S|apply rlev_ge_lowest]|exact D].
Qed.

(* ---------- with the concrete fuel *)
From TW Require Import ParseTotal FuelMono.

(* whatever fuel the parser is given: if it returns, it returns the tree *)
Corollary parse_returns_the_tree c st rest fuel r s :
  wf c -> stops P_LOWEST rest -> (rdot c = true -> not_lparen rest) ->
  parseExpression fuel P_LOWEST (setToks st (flat c ++ rest)) = POk r s ->
  r = ast c /\ s = setToks st (lastc c :: rest).
Proof.
  intros W S D H. destruct (parse_of_tokens_is_the_tree c st rest W S D) as (n & Hn).
  pose proof (parseExpression_fuel_mono fuel (Nat.max fuel n) _ _ _ _ ltac:(lia) H) as H1.
  rewrite Hn in H1 by lia. injection H1 as <- <-. split; reflexivity.
Qed.

Lemma atom_not_assign t : atom_ast t <> None -> ttype t <> T_ASSIGN.
Proof. unfold atom_ast. intros H E. rewrite E in H. cbn in H. congruence. Qed.

Lemma no_assign_list : forall l b,
  Forall (fun p => wf (snd p) -> forall t, In t (flat (snd p)) -> ttype t <> T_ASSIGN) l ->
  wf_list b l -> forall t, In t (flat_list b l) -> ttype t <> T_ASSIGN.
Proof.
  induction l as [|[cm a] l IH]; intros b F W t I; [destruct I|].
  apply Forall_cons_iff in F as [Fa F']. destruct W as (Hc & Wa & W'). cbn [snd] in Fa.
  change (flat_list b ((cm, a) :: l)) with ((if b then [] else [cm]) ++ flat a ++ flat_list false l) in I.
  apply in_app_or in I as [I|I].
  - destruct b; [destruct I|]. destruct I as [<-|[]]. destruct Hc as [X|X]; [discriminate X|rewrite X; discriminate].
  - apply in_app_or in I as [I|I]; [exact (Fa Wa _ I)|exact (IH false F' W' _ I)].
Qed.

Lemma no_assign c : wf c -> forall t, In t (flat c) -> ttype t <> T_ASSIGN.
Proof.
  induction c as [t|lp rp c IHc|o c1 c2 IHc1 IHc2|o c IHc|o c IHc|q col c1 c2 c3 IHc1 IHc2 IHc3|lb rb c1 c2 IHc1 IHc2|dot name c IHc|dot name lp rp c args IHc IHargs|lb rb els IHels] using cst_ind';
    cbn [wf flat]; intros W t0 I.
  - destruct I as [<-|[]]. apply atom_not_assign, W.
  - destruct W as (A & B & W). destruct I as [<-|I]; [rewrite A; discriminate|].
    apply in_app_or in I as [I|[<-|[]]]; [exact (IHc W _ I)|rewrite B; discriminate].
  - destruct W as (A & W1 & W2 & _). apply in_app_or in I as [I|[<-|I]];
      [exact (IHc1 W1 _ I)|intro E; rewrite E in A; discriminate A|exact (IHc2 W2 _ I)].
  - destruct W as (A & W & _). destruct I as [<-|I]; [intro E; rewrite E in A; discriminate A|exact (IHc W _ I)].
  - destruct W as (A & W & _). apply in_app_or in I as [I|[<-|[]]];
      [exact (IHc W _ I)|intro E; rewrite E in A; discriminate A].
  - destruct W as (A & B & W1 & W2 & W3 & _).
    apply in_app_or in I as [I|[<-|I]]; [exact (IHc1 W1 _ I)|rewrite A; discriminate|].
    apply in_app_or in I as [I|[<-|I]]; [exact (IHc2 W2 _ I)|rewrite B; discriminate|exact (IHc3 W3 _ I)].
  - destruct W as (A & B & W1 & W2 & _).
    apply in_app_or in I as [I|[<-|I]]; [exact (IHc1 W1 _ I)|rewrite A; discriminate|].
    apply in_app_or in I as [I|[<-|[]]]; [exact (IHc2 W2 _ I)|rewrite B; discriminate].
  - destruct W as (A & B & W & _).
    apply in_app_or in I as [I|[<-|[<-|[]]]]; [exact (IHc W _ I)|rewrite A; discriminate|rewrite B; discriminate].
  - destruct W as (A & B & C & D & W & _ & Wl).
    apply in_app_or in I as [I|[<-|[<-|[<-|I]]]];
      [exact (IHc W _ I)|rewrite A; discriminate|rewrite B; discriminate|rewrite C; discriminate|].
    apply in_app_or in I as [I|[<-|[]]]; [exact (no_assign_list args true IHargs Wl _ I)|rewrite D; discriminate].
  - destruct W as (A & B & Wl). destruct I as [<-|I]; [rewrite A; discriminate|].
    apply in_app_or in I as [I|[<-|[]]]; [exact (no_assign_list els true IHels Wl _ I)|rewrite B; discriminate].
Qed.

Lemma tinv_app_eof pre e : ttype e = T_EOF -> tinv (pre ++ [e]) = true.
Proof.
  intro H. induction pre as [|a pre IH]; cbn [app tinv].
  - unfold is_termT. rewrite H. reflexivity.
  - destruct (pre ++ [e]) eqn:E; [destruct pre; discriminate E|exact IH].
Qed.

Lemma programLoop_S f acc st :
  programLoop (S f) acc st =
  if curIs st T_EOF then POk (Some (rev acc)) st else
  match parseStatement f st with
  | POk s st1 =>
    if curIs st1 T_ILLEGAL
    then POk None (addErr st1 (eline (curT st1)) (fmt ErrIllegalToken [tlit (curT st1)]))
    else programLoop f (if stmt_is_null s then acc else s :: acc) (advance st1)
  | POOF => POOF
  end.
Proof. reflexivity. Qed.

Lemma parseStatement_braces f st :
  ttype (curT st) = T_LBRACES -> parseStatement (S f) st = parseBracesStmt f st.
Proof. intro H. cbn [parseStatement]. rewrite H. reflexivity. Qed.

(* the statement  {{ c }}  as a whole program: one expression statement holding the tree *)
Theorem braces_block_parses c lb rb eof :
  wf c -> ttype lb = T_LBRACES -> ttype rb = T_RBRACES -> ttype eof = T_EOF ->
  parse_tokens (lb :: flat c ++ [rb; eof]) = ParsedOk (mkProgram [SExpr (ast c)] None [] [] []).
Proof.
  intros W Hlb Hrb He. unfold parse_tokens, parse_tokens_fuel, parse_fuel.
  set (ts := lb :: flat c ++ [rb; eof]).
  assert (HF : exists F, (6 * List.length ts + 20 = S (S (S F)))%nat /\ (6 * List.length ts <= F)%nat)
    by (exists (6 * List.length ts + 17)%nat; lia).
  destruct HF as (F0 & -> & HF). remember (S F0) as F eqn:EF.
  assert (HF' : (6 * List.length ts <= F)%nat) by lia. clear HF EF F0. rename HF' into HF.
  destruct (first_not_rbraces c W) as (a & r' & Ea & Ha).
  assert (Srb : stops P_LOWEST [rb; eof]) by (left; rewrite Hrb; reflexivity).
  assert (Drb : rdot c = true -> not_lparen [rb; eof]) by (intros _; cbn; rewrite Hrb; discriminate).
  (* the expression itself, with the fuel it gets *)
  set (st1 := setToks (initP ts) (flat c ++ [rb; eof])).
  assert (G1 : good (fun _ => True) st1).
  { split; [|split; [reflexivity|split; [constructor|exact I]]].
    subst st1. cbn [toks setToks]. change (flat c ++ [rb; eof]) with (flat c ++ [rb] ++ [eof]).
    rewrite app_assoc. apply tinv_app_eof, He. }
  destruct (parseExpression_total (fun _ => True) (fun _ _ _ _ => I) F P_LOWEST st1 G1) as (e & s & Ee & _ & _).
  { unfold mu. subst st1 ts. cbn [toks setToks List.length] in *. rewrite app_length in *. cbn [List.length] in *. lia. }
  destruct (parse_returns_the_tree c (initP ts) [rb; eof] F e s W Srb Drb Ee) as (-> & ->).
  (* the program loop around it *)
  subst ts. rewrite programLoop_S. unfold curIs at 1. cbn [curT toks initP hd]. rewrite Hlb.
  change (tok_eqb T_LBRACES T_EOF) with false. cbv iota.
  rewrite parseStatement_braces by (cbn [curT toks initP hd]; exact Hlb).
  unfold parseBracesStmt, parseEmbeddedCode.
  assert (Adv : advance (initP (lb :: flat c ++ [rb; eof])) = st1).
  { subst st1. rewrite Ea. reflexivity. }
  rewrite Adv.
  assert (C1 : curIs st1 T_RBRACES = false).
  { subst st1. unfold curIs. rewrite Ea. cbn [app]. rewrite curT_cons. exact Ha. }
  rewrite C1.
  assert (C2 : curIs st1 T_IDENT && peekIs st1 T_ASSIGN = false).
  { apply andb_false_iff. right. subst st1. unfold peekIs, peekT. cbn [toks setToks]. rewrite Ea.
    destruct r' as [|b r'']; cbn [app].
    - rewrite Hrb. reflexivity.
    - assert (N : ttype b <> T_ASSIGN) by (apply (no_assign c W); rewrite Ea; right; left; reflexivity).
      destruct (ttype b); try reflexivity. congruence. }
  rewrite C2. unfold parseExpressionStmt. rewrite Ee.
  rewrite (proj1 (expectPeek_ok_peekIs _ _ _ _ _ Hrb)). rewrite advance_cons.
  cbv beta iota.
  (* no error was recorded and the parser stands on the closing braces *)
  cbn [errs setToks initP List.length Nat.eqb negb orb]. unfold curIs at 1. rewrite curT_cons, Hrb.
  change (tok_eqb T_RBRACES T_RBRACES) with true. cbn [orb]. cbv iota.
  unfold curIs at 1. rewrite curT_cons, Hrb. change (tok_eqb T_RBRACES T_ILLEGAL) with false. cbv iota.
  cbn [stmt_is_null]. rewrite advance_cons. rewrite programLoop_S. unfold curIs. rewrite curT_cons, He.
  change (tok_eqb T_EOF T_EOF) with true. cbv iota. reflexivity.
Qed.

(* ---------- what the table means for two neighbouring binary operators: the second one takes
   the first group as its left operand exactly when it does not bind tighter (so operators of one
   level group left to right); otherwise it takes only the middle operand *)
Theorem two_operators a b c o1 o2 :
  atom_ast a <> None -> atom_ast b <> None -> atom_ast c <> None ->
  infix_of (ttype o1) = Some IK_Infix -> infix_of (ttype o2) = Some IK_Infix ->
  let t := if (tprec o2 <=? tprec o1)%nat
           then CBin o2 (CBin o1 (CAtom a) (CAtom b)) (CAtom c)
           else CBin o1 (CAtom a) (CBin o2 (CAtom b) (CAtom c)) in
  wf t /\ flat t = [a; o1; b; o2; c].
Proof.
  intros Ha Hb Hc H1 H2. cbv zeta.
  pose proof (precOf_lt_INF (ttype o1)). pose proof (precOf_lt_INF (ttype o2)).
  pose proof (infix_prec_ge _ H1). pose proof (infix_prec_ge _ H2).
  destruct (Nat.leb_spec (tprec o2) (tprec o1)); (split; [|reflexivity]); cbn [wf llev rlev]; unfold tprec, INF in *;
    repeat split; try assumption; lia.
Qed.
