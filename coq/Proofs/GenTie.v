(* The tie between the hand-written parser model and the tables the translator reads
   from parser/parser.go on every run: computed, kernel-checked equalities. *)
From Coq Require Import String.
From TW Require Import Bytes GenToken GenParser Lexer Parser.
Local Open Scope string_scope.

Definition pk_name (k : prefix_kind) : string :=
  match k with
  | PK_Ident => "parseIdentifier" | PK_Int => "parseIntegerLiteral" | PK_Float => "parseFloatLiteral"
  | PK_Str => "parseStringLiteral" | PK_Nil => "parseNilLiteral" | PK_Bool => "parseBooleanLiteral"
  | PK_Prefix => "parsePrefixExp" | PK_Grouped => "parseGroupedExpression"
  | PK_Array => "parseArrayLiteral" | PK_Object => "parseObjectLiteral"
  end.

Definition ik_name (k : infix_kind) : string :=
  match k with
  | IK_Infix => "parseInfixExp" | IK_Ternary => "parseTernaryExp" | IK_Index => "parseIndexExp"
  | IK_Postfix => "parsePostfixExp" | IK_Dot => "parseDotExp"
  end.

Definition opt_str_eqb (a b : option string) : bool :=
  match a, b with
  | Some x, Some y => String.eqb x y
  | None, None => true
  | _, _ => false
  end.

(* the model's prefix / infix dispatch is exactly the registration in parser.New *)
Lemma prefix_registration_tied :
  forallb (fun t => opt_str_eqb (option_map pk_name (prefix_of t)) (tlookup t prefix_fns)) all_toks = true.
Proof. vm_compute. reflexivity. Qed.

Lemma infix_registration_tied :
  forallb (fun t => opt_str_eqb (option_map ik_name (infix_of t)) (tlookup t infix_fns)) all_toks = true.
Proof. vm_compute. reflexivity. Qed.

(* the precedence argument of every parseExpression(...) call site, in source order *)
Definition model_sites : list (string * string) :=
  [("parseObjectLiteral", "LOWEST"); ("parseObjectLiteral", "LOWEST"); ("parseAssignStmt", "LOWEST");
   ("parseBreakIfStmt", "LOWEST"); ("parseContinueIfStmt", "LOWEST"); ("parseComponentStmt", "LOWEST");
   ("parseInsertStmt", "LOWEST"); ("parseIndexExp", "LOWEST"); ("parseInfixExp", "curPrecedence()");
   ("parseTernaryExp", "TERNARY"); ("parseTernaryExp", "LOWEST"); ("parseIfStmt", "LOWEST");
   ("parseElseIfStmt", "LOWEST"); ("parseForStmt", "LOWEST"); ("parseEachStmt", "LOWEST");
   ("parseExpressionStmt", "LOWEST"); ("parsePrefixExp", "PREFIX"); ("parseGroupedExpression", "LOWEST");
   ("parseExpressionList", "LOWEST"); ("parseExpressionList", "LOWEST")].

Lemma call_site_precedences_tied : parse_expression_sites = model_sites.
Proof. reflexivity. Qed.

Lemma stop_tokens_tied : expr_stop_tokens = [T_RBRACES; T_SEMI; T_RPAREN].
Proof. reflexivity. Qed.

Lemma block_tokens_tied :
  block_guard_tokens = [T_END; T_EOF; T_ILLEGAL] /\ block_break_tokens = [T_ELSE; T_ELSE_IF; T_END].
Proof. split; reflexivity. Qed.

Lemma body_terminators_tied : blockTerminators = block_break_tokens.
Proof. reflexivity. Qed.

(* every directive keyword is spelled with '@' + letters, all distinct: the lexer's longest-match
   loop and the specification's keyword table talk about the same words *)
Lemma directives_well_formed :
  forallb (fun p => match bs (fst p) with
                    | c :: r => (c =? 64)%N && forallb isLetterWord r
                    | [] => false end) directives = true.
Proof. vm_compute. reflexivity. Qed.
