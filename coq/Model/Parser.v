(* Model of parser/parser.go over the finite token list produced by the lexer
   model, with repeat-last semantics (the Go lexer returns the same EOF / ILLEGAL
   token forever).  The head of [toks] is Go's curToken, the second element its
   peekToken.  One Gallina function per Go method; one shared fuel that decreases
   on every call; POOF is the only non-Go outcome and is excluded by parse_total. *)
From Coq Require Import String.
From TW Require Export Ast GenParser GenFail.
Open Scope N_scope.

(* ---------- parser state *)
Definition comp_entry := (nat * nat * bytes * list (nat * bytes * list stmt))%type.

Record pstate := mkP {
  toks : list token;
  errs : list (nat * bytes);          (* newest first *)
  ppanic : bool;                      (* the Go code would have panicked *)
  next_id : nat;
  ps_use : option (nat * bytes);
  ps_components : list comp_entry;    (* parse order *)
  ps_reserves : list (bytes * nat);
  ps_inserts : list (bytes * insert_rec)
}.

Inductive pres (A : Type) :=
| POk (a : A) (st : pstate)
| POOF.
Arguments POk {A} a st.
Arguments POOF {A}.

Notation "'do' ( x , s ) <- r ; k" :=
  (match r with POk x s => k | POOF => POOF end)
  (at level 200, x name, s name, r at level 100, k at level 200).

Definition eofTok : token := mkToken T_EOF [] 0 0 0 0.

Definition curT (st : pstate) : token := hd eofTok (toks st).
Definition peekT (st : pstate) : token :=
  match toks st with
  | _ :: p :: _ => p
  | [t] => t
  | [] => eofTok
  end.

Definition setToks (st : pstate) (ts : list token) : pstate :=
  mkP ts (errs st) (ppanic st) (next_id st) (ps_use st) (ps_components st) (ps_reserves st) (ps_inserts st).

(* p.nextToken() *)
Definition advance (st : pstate) : pstate :=
  match toks st with
  | _ :: ((_ :: _) as ts') => setToks st ts'
  | _ => st
  end.

Definition eline (t : token) : nat := S (tel t).     (* Token.ErrorLine() *)

Definition addErr (st : pstate) (ln : nat) (msg : bytes) : pstate :=
  mkP (toks st) ((ln, msg) :: errs st) (ppanic st) (next_id st) (ps_use st)
      (ps_components st) (ps_reserves st) (ps_inserts st).

Definition setPanic (st : pstate) : pstate :=
  mkP (toks st) (errs st) true (next_id st) (ps_use st) (ps_components st) (ps_reserves st) (ps_inserts st).

Definition curIs (st : pstate) (t : tok) : bool := tok_eqb (ttype (curT st)) t.
Definition peekIs (st : pstate) (t : tok) : bool := tok_eqb (ttype (peekT st)) t.
Definition peekIn (st : pstate) (ts : list tok) : bool := inb (ttype (peekT st)) ts.

(* the token after the peek token (read ahead on a copy of the lexer) *)
Definition peek2T (st : pstate) : token :=
  match toks st with
  | _ :: _ :: t :: _ => t
  | [_; t] => t
  | [t] => t
  | [] => eofTok
  end.
Definition peek2Is (st : pstate) (t : tok) : bool := tok_eqb (ttype (peek2T st)) t.

Fixpoint tlookup {A} (t : tok) (m : list (tok * A)) : option A :=
  match m with
  | [] => None
  | (k, v) :: m' => if tok_eqb t k then Some v else tlookup t m'
  end.

(* token.String(t): None when t indexes past the end of the Go array (panic) *)
Definition tokenString (t : tok) : option bytes :=
  if Nat.ltb (tok_index t) token_names_len
  then Some (match tlookup t token_names with Some s => bs s | None => [] end)
  else None.

Definition precOf (t : tok) : nat :=
  match tlookup t precedences with Some p => p | None => P_LOWEST end.

Definition peekPrecedence (st : pstate) : nat := precOf (ttype (peekT st)).
Definition curPrecedence (st : pstate) : nat := precOf (ttype (curT st)).

Definition expectPeek (st : pstate) (t : tok) : bool * pstate :=
  if peekIs st t then (true, advance st)
  else match tokenString t, tokenString (ttype (peekT st)) with
       | Some a, Some b => (false, addErr st (eline (peekT st)) (fmt ErrWrongNextToken [a; b]))
       | _, _ => (false, setPanic st)
       end.

(* ---------- which parse function is registered for a token (tied to Gen by GenTie.v) *)
Inductive prefix_kind := PK_Ident | PK_Int | PK_Float | PK_Str | PK_Nil | PK_Bool
                       | PK_Prefix | PK_Grouped | PK_Array | PK_Object.
Inductive infix_kind := IK_Infix | IK_Ternary | IK_Index | IK_Postfix | IK_Dot.

Definition prefix_of (t : tok) : option prefix_kind :=
  match t with
  | T_IDENT => Some PK_Ident | T_INT => Some PK_Int | T_FLOAT => Some PK_Float
  | T_STR => Some PK_Str | T_NIL => Some PK_Nil | T_TRUE | T_FALSE => Some PK_Bool
  | T_SUB | T_NOT => Some PK_Prefix | T_LPAREN => Some PK_Grouped
  | T_LBRACKET => Some PK_Array | T_LBRACE => Some PK_Object
  | _ => None
  end.

Definition infix_of (t : tok) : option infix_kind :=
  match t with
  | T_ADD | T_SUB | T_MUL | T_DIV | T_MOD
  | T_EQ | T_NOT_EQ | T_LTHAN | T_GTHAN | T_LTHAN_EQ | T_GTHAN_EQ => Some IK_Infix
  | T_QUESTION => Some IK_Ternary | T_LBRACKET => Some IK_Index
  | T_INC | T_DEC => Some IK_Postfix | T_DOT => Some IK_Dot
  | _ => None
  end.

(* strconv.ParseInt(lit, 10, 64) on the lexer's digit strings *)
Fixpoint dec_value (acc : Z) (s : bytes) : Z :=
  match s with
  | [] => acc
  | c :: s' => dec_value (acc * 10 + Z.of_N (c - 48))%Z s'
  end.

Definition max_int64 : Z := 9223372036854775807%Z.

Definition parseInt (lit : bytes) : option Z :=
  let v := dec_value 0%Z lit in
  if (v <=? max_int64)%Z then Some v else None.

(* strconv.ParseFloat accepts the lexer's FLOAT literals exactly when they have one dot
   (finite values; a literal of more than 308 digits overflows and is left to Unmodelled
   by the evaluator's conversion, see Floats.v) *)
Definition count_dots (s : bytes) : nat := List.length (filter (N.eqb 46) s).

Definition str_INT : bytes := bs "INT".
Definition str_FLOAT : bytes := bs "FLOAT".

Definition aliasPath (st : pstate) (shortenTo : bytes) : bytes * pstate :=
  let name := tlit (curT st) in
  match name with
  | [] => ([], addErr st (eline (curT st)) (fmt ErrExpectedComponentName []))
  | c :: name' => if c =? 126 then (shortenTo ++ [47] ++ name', st) else (name, st)
  end.

(* ---------- expressions *)

Fixpoint parseExpression (fuel : nat) (prec : nat) (st : pstate) {struct fuel} : pres expr :=
  match fuel with
  | O => POOF
  | S f =>
    match prefix_of (ttype (curT st)) with
    | None =>
      match tokenString (ttype (curT st)) with
      | Some s => POk ENull (addErr st (eline (curT st)) (fmt ErrNoPrefixParseFunc [s]))
      | None => POk ENull (setPanic st)
      end
    | Some k =>
      do (left, st1) <- parsePrefix f k st;
      prattLoop f prec left st1
    end
  end

with parsePrefix (fuel : nat) (k : prefix_kind) (st : pstate) {struct fuel} : pres expr :=
  match fuel with
  | O => POOF
  | S f =>
    let t := curT st in
    let ln := eline t in
    match k with
    | PK_Ident => POk (EIdent ln (tlit t)) st
    | PK_Int =>
      match parseInt (tlit t) with
      | Some v => POk (EInt ln v) st
      | None => POk ENull (addErr st ln (fmt ErrCouldNotParseAs [tlit t; str_INT]))
      end
    | PK_Float =>
      if Nat.eqb (count_dots (tlit t)) 1 then POk (EFloat ln (tlit t)) st
      else POk ENull (addErr st ln (fmt ErrCouldNotParseAs [tlit t; str_FLOAT]))
    | PK_Str => POk (EStr ln (tlit t)) st
    | PK_Nil => POk (ENil ln) st
    | PK_Bool => POk (EBool ln (tok_eqb (ttype t) T_TRUE)) st
    | PK_Prefix =>
      do (r, st1) <- parseExpression f P_PREFIX (advance st);
      POk (EPrefix ln (tlit t) r) st1
    | PK_Grouped =>
      do (e, st1) <- parseExpression f P_LOWEST (advance st);
      let '(ok, st2) := expectPeek st1 T_RPAREN in
      if ok then POk e st2 else POk ENull st2
    | PK_Array =>
      do (els, st1) <- parseExpressionList f T_RBRACKET st;
      POk (EArr ln (match els with Some l => l | None => [] end)) st1
    | PK_Object =>
      let st1 := advance st in
      if curIs st1 T_RBRACE then POk (EObj ln []) st1
      else parseObjectLoop f ln [] st1
    end
  end

(* the loop of parseObjectLiteral: for !curTokenIs(RBRACE) { ... } *)
with parseObjectLoop (fuel : nat) (ln : nat) (pairs : list (bytes * expr)) (st : pstate)
     {struct fuel} : pres expr :=
  match fuel with
  | O => POOF
  | S f =>
    if curIs st T_RBRACE then POk (EObj ln pairs) st else
    let key := tlit (curT st) in
    let st1 := if peekIs st T_COLON then advance (advance st) else st in
    do (v, st2) <- parseExpression f P_LOWEST st1;
    let pairs' := aset key v pairs in
    if peekIs st2 T_COMMA then parseObjectLoop f ln pairs' (advance (advance st2))
    else
      let '(ok, st3) := expectPeek st2 T_RBRACE in
      if ok then POk (EObj ln pairs') st3 else POk ENull st3
  end

with prattLoop (fuel : nat) (prec : nat) (left : expr) (st : pstate) {struct fuel} : pres expr :=
  match fuel with
  | O => POOF
  | S f =>
    if negb (peekIn st expr_stop_tokens) && Nat.ltb prec (peekPrecedence st) then
      match infix_of (ttype (peekT st)) with
      | None => POk left st
      | Some k =>
        do (left', st1) <- parseInfix f k left (advance st);
        prattLoop f prec left' st1
      end
    else POk left st
  end

with parseInfix (fuel : nat) (k : infix_kind) (left : expr) (st : pstate) {struct fuel} : pres expr :=
  match fuel with
  | O => POOF
  | S f =>
    let t := curT st in
    let ln := eline t in
    match k with
    | IK_Infix =>
      let precedence := curPrecedence st in
      let st1 := advance st in
      if curIs st1 T_RBRACES
      then POk ENull (addErr st1 (eline (curT st1)) (fmt ErrExpectedExpression []))
      else do (r, st2) <- parseExpression f precedence st1;
           POk (EInfix ln (tlit t) left r) st2
    | IK_Ternary =>
      do (a, st1) <- parseExpression f P_TERNARY (advance st);
      let '(ok, st2) := expectPeek st1 T_COLON in
      if negb ok then POk ENull st2 else
      do (b, st3) <- parseExpression f P_LOWEST (advance st2);
      POk (ETernary ln left a b) st3
    | IK_Index =>
      do (i, st1) <- parseExpression f P_LOWEST (advance st);
      let '(ok, st2) := expectPeek st1 T_RBRACKET in
      if ok then POk (EIndex ln left i) st2 else POk ENull st2
    | IK_Postfix => POk (EPostfix ln (tlit t) left) st
    | IK_Dot =>
      let '(ok, st1) := expectPeek st T_IDENT in
      if negb ok then POk ENull st1 else
      if peekIs st1 T_LPAREN then
        (* parseCallExp(left) *)
        let id := curT st1 in
        let '(ok2, st2) := expectPeek st1 T_LPAREN in
        if negb ok2 then POk ENull st2 else
        do (args, st3) <- parseExpressionList f T_RPAREN st2;
        POk (ECall (eline id) left (tlit id) (match args with Some l => l | None => [] end)) st3
      else POk (EDot ln left (EIdent (eline (curT st1)) (tlit (curT st1)))) st1
    end
  end

(* parseExpressionList(endTok): None = Go's nil result after a failed expectPeek *)
with parseExpressionList (fuel : nat) (endTok : tok) (st : pstate) {struct fuel}
     : pres (option (list expr)) :=
  match fuel with
  | O => POOF
  | S f =>
    if peekIs st endTok then POk (Some []) (advance st) else
    do (e, st1) <- parseExpression f P_LOWEST (advance st);
    exprListLoop f endTok [e] st1
  end

with exprListLoop (fuel : nat) (endTok : tok) (acc : list expr) (st : pstate) {struct fuel}
     : pres (option (list expr)) :=
  match fuel with
  | O => POOF
  | S f =>
    let finish (st' : pstate) :=
      let '(ok, st2) := expectPeek st' endTok in
      if ok then POk (Some (rev acc)) st2 else POk None st2 in
    if peekIs st T_COMMA then
      let st1 := advance st in
      if peekIs st1 endTok then finish st1
      else do (e, st2) <- parseExpression f P_LOWEST (advance st1);
           exprListLoop f endTok (e :: acc) st2
    else finish st
  end.

(* ---------- statements *)

Definition isWhitespaceLit (s : bytes) : bool := forallb isWs s.

Definition setUse (st : pstate) (u : nat * bytes) : pstate :=
  mkP (toks st) (errs st) (ppanic st) (next_id st) (Some u) (ps_components st) (ps_reserves st) (ps_inserts st).

Definition freshId (st : pstate) : nat * pstate :=
  (next_id st, mkP (toks st) (errs st) (ppanic st) (S (next_id st)) (ps_use st)
                   (ps_components st) (ps_reserves st) (ps_inserts st)).

Definition addComponent (st : pstate) (c : comp_entry) : pstate :=
  mkP (toks st) (errs st) (ppanic st) (next_id st) (ps_use st) (ps_components st ++ [c])
      (ps_reserves st) (ps_inserts st).

Definition addReserve (st : pstate) (name : bytes) (rid : nat) : pstate :=
  mkP (toks st) (errs st) (ppanic st) (next_id st) (ps_use st) (ps_components st)
      (aset name rid (ps_reserves st)) (ps_inserts st).

Definition addInsert (st : pstate) (name : bytes) (i : insert_rec) : pstate :=
  mkP (toks st) (errs st) (ppanic st) (next_id st) (ps_use st) (ps_components st)
      (ps_reserves st) (aset name i (ps_inserts st)).

Definition stmt_is_null (s : stmt) : bool := match s with SNull => true | _ => false end.

(* parseExpressionStmt *)
Definition parseExpressionStmt (fuel : nat) (st : pstate) : pres stmt :=
  do (e, st1) <- parseExpression fuel P_LOWEST st;
  POk (SExpr e) (if peekIs st1 T_RBRACES then advance st1 else st1).

(* parseAssignStmt *)
Definition parseAssignStmt (fuel : nat) (st : pstate) : pres stmt :=
  let id := curT st in
  let '(ok, st1) := expectPeek st T_ASSIGN in
  if negb ok then POk SNull st1 else
  let st2 := advance st1 in
  if curIs st2 T_RBRACES
  then POk SNull (addErr st2 (eline (curT st2)) (fmt ErrExpectedExpression []))
  else do (v, st3) <- parseExpression fuel P_LOWEST st2;
       POk (SAssign (eline id) (tlit id) v) st3.

(* parseEmbeddedCode *)
Definition parseEmbeddedCode (fuel : nat) (st : pstate) : pres stmt :=
  let st1 := advance st in
  if curIs st1 T_RBRACES
  then POk SNull (addErr st1 (eline (curT st1)) (fmt ErrEmptyBraces []))
  else if curIs st1 T_IDENT && peekIs st1 T_ASSIGN then parseAssignStmt fuel st1
  else parseExpressionStmt fuel st1.

(* parseBracesStmt: one statement of a {{ ... }} block; the block must go on (";") or be closed ("}}") after it *)
Definition parseBracesStmt (fuel : nat) (st : pstate) : pres stmt :=
  do (s, st1) <- parseEmbeddedCode fuel st;
  if negb (Nat.eqb (List.length (errs st1)) (List.length (errs st))) || curIs st1 T_RBRACES ||
     peekIn st1 [T_RBRACES; T_SEMI]
  then POk s st1
  else match tokenString T_RBRACES, tokenString (ttype (peekT st1)) with
       | Some a, Some b => POk SNull (addErr st1 (eline (peekT st1)) (fmt ErrWrongNextToken [a; b]))
       | _, _ => POk SNull (setPanic st1)
       end.

(* @breakIf / @continueIf *)
Definition parseCondDirective (fuel : nat) (mk : nat -> expr -> stmt) (st : pstate) : pres stmt :=
  let t := curT st in
  let '(ok, st1) := expectPeek st T_LPAREN in
  if negb ok then POk SNull st1 else
  do (c, st2) <- parseExpression fuel P_LOWEST (advance st1);
  let '(ok2, st3) := expectPeek st2 T_RPAREN in
  if ok2 then POk (mk (eline t) c) st3 else POk SNull st3.

Definition parseUseStmt (st : pstate) : pres stmt :=
  let t := curT st in
  let '(ok, st1) := expectPeek st T_LPAREN in
  if negb ok then POk SNull st1 else
  let st2 := advance st1 in
  let '(name, st3) := aliasPath st2 (bs "layouts") in
  let '(ok2, st4) := expectPeek st3 T_RPAREN in
  if negb ok2 then POk SNull st4 else
  POk (SUse (eline t) name None) (setUse st4 (eline t, name)).

Definition parseReserveStmt (st : pstate) : pres stmt :=
  let t := curT st in
  let '(ok, st1) := expectPeek st T_LPAREN in
  if negb ok then POk SNull st1 else
  let st2 := advance st1 in
  let name := tlit (curT st2) in
  let '(ok2, st2') := expectPeek st2 T_RPAREN in
  if negb ok2 then POk SNull st2' else
  let '(rid, st3) := freshId st2' in
  POk (SReserve (eline t) rid name None) (addReserve st3 name rid).

Definition parseSlotStmt (st : pstate) : pres stmt :=
  let t := curT st in
  if negb (peekIs st T_LPAREN) then POk (SSlot (eline t) [] None) st else
  let st1 := advance (advance st) in
  let name := tlit (curT st1) in
  let '(ok, st2) := expectPeek st1 T_RPAREN in
  if ok then POk (SSlot (eline t) name None) st2 else POk SNull st2.

Definition parseDumpStmt (fuel : nat) (st : pstate) : pres stmt :=
  let t := curT st in
  let '(ok, st1) := expectPeek st T_LPAREN in
  if negb ok then POk SNull st1 else
  do (args, st2) <- parseExpressionList fuel T_RPAREN st1;
  POk (SDump (eline t) (match args with Some l => l | None => [] end)) st2.

Definition blockTerminators : list tok := [T_ELSE; T_ELSE_IF; T_END].

Fixpoint parseStatement (fuel : nat) (st : pstate) {struct fuel} : pres stmt :=
  match fuel with
  | O => POOF
  | S f =>
    let t := curT st in
    let ln := eline t in
    match ttype t with
    | T_HTML => POk (SHtml ln (tlit t)) st
    | T_LBRACES | T_SEMI => parseBracesStmt f st
    | T_IF =>
      let '(ok, st1) := expectPeek st T_LPAREN in
      if negb ok then POk SNull st1 else
      do (c, st2) <- parseExpression f P_LOWEST (advance st1);
      let '(ok2, st3) := expectPeek st2 T_RPAREN in
      if negb ok2 then POk SNull st3 else
      do (cons, st4) <- parseBody f st3;
      do (alts, st5) <- elseIfLoop f [] st4;
      match alts with
      | None => POk SNull st5
      | Some alts' =>
        if peekIs st5 T_ELSE then
          (* parseAlternativeBlock *)
          do (alt, st6) <- parseBody f (advance st5);
          if peekIs st6 T_ELSE_IF
          then POk SNull (addErr st6 (eline (peekT st6)) (fmt ErrElseifCannotFollowElse []))
          else let '(ok3, st7) := expectPeek st6 T_END in
               if ok3 then POk (SIf ln c cons alts' (Some alt)) st7 else POk SNull st7
        else let '(ok3, st7) := expectPeek st5 T_END in
             if ok3 then POk (SIf ln c cons alts' None) st7 else POk SNull st7
      end
    | T_FOR =>
      let '(ok, st1) := expectPeek st T_LPAREN in
      if negb ok then POk SNull st1 else
      do (init, st2) <- (if negb (peekIs st1 T_SEMI) then parseEmbeddedCode f st1 else POk SNull st1);
      let '(ok2, st3) := expectPeek st2 T_SEMI in
      if negb ok2 then POk SNull st3 else
      do (c, st4) <- (if negb (peekIs st3 T_SEMI) then parseExpression f P_LOWEST (advance st3)
                      else POk ENull st3);
      let '(ok3, st5) := expectPeek st4 T_SEMI in
      if negb ok3 then POk SNull st5 else
      do (post, st6) <- (if negb (peekIs st5 T_RPAREN) then parseEmbeddedCode f st5 else POk SNull st5);
      let '(ok4, st7) := expectPeek st6 T_RPAREN in
      if negb ok4 then POk SNull st7 else
      do (body, st8) <- parseBody f st7;
      do (alt, st9) <- (if peekIs st8 T_ELSE
                        then do (a, s) <- parseBody f (advance st8); POk (Some a) s
                        else POk None st8);
      let '(ok5, st10) := expectPeek st9 T_END in
      if ok5 then POk (SFor ln init c post body alt) st10 else POk SNull st10
    | T_EACH =>
      let '(ok, st1) := expectPeek st T_LPAREN in
      if negb ok then POk SNull st1 else
      let st2 := advance st1 in
      let var := tlit (curT st2) in
      let '(ok2, st3) := expectPeek st2 T_IN in
      if negb ok2 then POk SNull st3 else
      do (arr, st4) <- parseExpression f P_LOWEST (advance st3);
      let '(ok3, st5) := expectPeek st4 T_RPAREN in
      if negb ok3 then POk SNull st5 else
      do (body, st6) <- parseBody f st5;
      do (alt, st7) <- (if peekIs st6 T_ELSE
                        then do (a, s) <- parseBody f (advance st6); POk (Some a) s
                        else POk None st6);
      let '(ok4, st8) := expectPeek st7 T_END in
      if ok4 then POk (SEach ln var arr body alt) st8 else POk SNull st8
    | T_USE => parseUseStmt st
    | T_RESERVE => parseReserveStmt st
    | T_INSERT =>
      let '(ok, st1) := expectPeek st T_LPAREN in
      if negb ok then POk SNull st1 else
      let st2 := advance st1 in
      let name := tlit (curT st2) in
      match alookup name (ps_inserts st2) with
      | Some _ => POk SNull (addErr st2 ln (fmt ErrDuplicateInserts [name]))
      | None =>
        if peekIs st2 T_COMMA then
          do (arg, st3) <- parseExpression f P_LOWEST (advance (advance st2));
          let '(ok2, st4) := expectPeek st3 T_RPAREN in
          if negb ok2 then POk SNull st4 else
          POk (SInsert ln name arg None) (addInsert st4 name (mkInsert ln name arg None))
        else
          let '(ok2, st3) := expectPeek st2 T_RPAREN in
          if negb ok2 then POk SNull st3 else
          do (body, st4) <- parseBody f st3;
          let '(ok3, st5) := expectPeek st4 T_END in
          if negb ok3 then POk SNull st5 else
          POk (SInsert ln name ENull (Some body)) (addInsert st5 name (mkInsert ln name ENull (Some body)))
      end
    | T_BREAK_IF => parseCondDirective f SBreakIf st
    | T_CONTINUE_IF => parseCondDirective f SContinueIf st
    | T_COMPONENT =>
      let '(ok, st1) := expectPeek st T_LPAREN in
      if negb ok then POk SNull st1 else
      let st2 := advance st1 in
      let '(name, st3) := aliasPath st2 (bs "components") in
      do (argr, st4) <-
        (if peekIs st3 T_COMMA then
           do (e, s) <- parseExpression f P_LOWEST (advance (advance st3));
           match e with
           | EObj _ _ => POk (Some (Some e)) s
           | _ => POk None (addErr s (eline (curT s)) (fmt ErrExpectedObjectLiteral [tlit (curT s)]))
           end
         else POk (Some None) st3);
      match argr with
      | None => POk SNull st4
      | Some arg =>
        let '(ok2, st5) := expectPeek st4 T_RPAREN in
        if negb ok2 then POk SNull st5 else
        do (slots, st6) <-
          (if peekIs st5 T_SLOT then parseSlots f [] (advance st5)
           else if peekIs st5 T_HTML && isWhitespaceLit (tlit (peekT st5)) && peek2Is st5 T_SLOT then
             (* slotFollowsPeek: one more token of look-ahead, on a copy of the lexer *)
             parseSlots f [] (advance (advance st5))
           else POk (Some []) st5);
        let slots' := match slots with Some l => l | None => [] end in
        (* a component that was given slots is closed by its own "@end" (stmt.Slots != nil) *)
        let '(okE, st6') := match slots' with [] => (true, st6) | _ :: _ => expectPeek st6 T_END end in
        if negb okE then POk SNull st6' else
        let '(cid, st7) := freshId st6' in
        POk (SComponent ln cid name arg slots' None) (addComponent st7 (cid, ln, name, slots'))
      end
    | T_SLOT => parseSlotStmt st
    | T_DUMP => parseDumpStmt f st
    | T_BREAK => POk SBreak st
    | T_CONTINUE => POk SContinue st
    | _ => POk SNull st
    end
  end

(* parseBody: the statements after the current token up to a terminator; may be empty *)
with parseBody (fuel : nat) (st : pstate) {struct fuel} : pres (list stmt) :=
  match fuel with
  | O => POOF
  | S f => if peekIn st blockTerminators then POk [] st else parseBlockStmt f (advance st)
  end

(* parseBlockStmt *)
with parseBlockStmt (fuel : nat) (st : pstate) {struct fuel} : pres (list stmt) :=
  match fuel with
  | O => POOF
  | S f => blockLoop f [] st
  end

with blockLoop (fuel : nat) (acc : list stmt) (st : pstate) {struct fuel} : pres (list stmt) :=
  match fuel with
  | O => POOF
  | S f =>
    if inb (ttype (curT st)) block_guard_tokens then POk (rev acc) st else
    do (s, st1) <- parseStatement f st;
    let acc' := if stmt_is_null s then acc else s :: acc in
    if peekIn st1 block_break_tokens then POk (rev acc') st1
    else blockLoop f acc' (advance st1)
  end

(* for p.peekTokenIs(ELSE_IF) { alt := parseElseIfStmt() ... }; None = a nil alternative *)
with elseIfLoop (fuel : nat) (acc : list (expr * list stmt)) (st : pstate) {struct fuel}
     : pres (option (list (expr * list stmt))) :=
  match fuel with
  | O => POOF
  | S f =>
    if negb (peekIs st T_ELSE_IF) then POk (Some (rev acc)) st else
    (* parseElseIfStmt: expectPeek(ELSE_IF) succeeds here *)
    let st1 := advance (advance (advance st)) in
    do (c, st2) <- parseExpression f P_LOWEST st1;
    let '(ok, st3) := expectPeek st2 T_RPAREN in
    if negb ok then POk None st3 else
    do (b, st4) <- parseBody f st3;
    elseIfLoop f ((c, b) :: acc) st4
  end

(* parseSlots: for p.curTokenIs(SLOT) { ... }; None = Go's nil after a failed expectPeek *)
with parseSlots (fuel : nat) (acc : list (nat * bytes * list stmt)) (st : pstate) {struct fuel}
     : pres (option (list (nat * bytes * list stmt))) :=
  match fuel with
  | O => POOF
  | S f =>
    if negb (curIs st T_SLOT) then POk (Some (rev acc)) st else
    let t := curT st in
    let cont (name : bytes) (st' : pstate) :=
      do (b, st2) <- parseBody f st';
      let '(okE, st3) := expectPeek st2 T_END in
      if negb okE then POk None st3 else
      let acc' := (eline t, name, b) :: acc in
      let st4 := if peekIs st3 T_HTML && isWhitespaceLit (tlit (peekT st3)) then advance st3 else st3 in
      if negb (peekIs st4 T_SLOT) then POk (Some (rev acc')) st4
      else parseSlots f acc' (advance st4) in
    if peekIs st T_LPAREN then
      let st1 := advance (advance st) in
      let name := tlit (curT st1) in
      let '(ok, st2) := expectPeek st1 T_RPAREN in
      if negb ok then POk None st2 else cont name st2
    else cont [] st
  end.

(* ParseProgram; None = Go returned a nil program (illegal token) *)
Fixpoint programLoop (fuel : nat) (acc : list stmt) (st : pstate) {struct fuel}
  : pres (option (list stmt)) :=
  match fuel with
  | O => POOF
  | S f =>
    if curIs st T_EOF then POk (Some (rev acc)) st else
    do (s, st1) <- parseStatement f st;
    if curIs st1 T_ILLEGAL
    then POk None (addErr st1 (eline (curT st1)) (fmt ErrIllegalToken [tlit (curT st1)]))
    else programLoop f (if stmt_is_null s then acc else s :: acc) (advance st1)
  end.

Definition initP (ts : list token) : pstate :=
  mkP ts [] false 0 None [] [] [].

Definition parse_fuel (ts : list token) : nat := 6 * List.length ts + 20.

Inductive parse_result :=
| ParsedOk (p : program)
| ParseErrors (errs : list (nat * bytes))   (* oldest first; never empty *)
| ParsePanic
| ParseOutOfFuel.

Definition parse_tokens_fuel (fuel : nat) (ts : list token) : parse_result :=
  match programLoop fuel [] (initP ts) with
  | POOF => ParseOutOfFuel
  | POk r st =>
    if ppanic st then ParsePanic else
    match errs st, r with
    | [], Some ss => ParsedOk (mkProgram ss (ps_use st) (ps_components st) (ps_reserves st) (ps_inserts st))
    | [], None => ParsePanic  (* unreachable: a nil program always comes with an error *)
    | es, _ => ParseErrors (rev es)
    end
  end.

Definition parse_tokens (ts : list token) : parse_result := parse_tokens_fuel (parse_fuel ts) ts.

Definition parse_source (src : bytes) : parse_result :=
  match lex_all src with
  | Some ts => parse_tokens ts
  | None => ParseOutOfFuel
  end.
