(* Built-in functions of evaluator/*_func.go on model values.
   Result: BOk v | BErr msg | BUnmodelled (behaviour outside the modelled class:
   non-ASCII case mapping, html.UnescapeString outside the escaper's image,
   shuffle of 2+ elements, a non-ASCII trim cutset). *)
From Coq Require Import String.
From TW Require Export Values.
From TW Require Import GenMisc.
Open Scope N_scope.

Inductive bres :=
| BOk (v : value)
| BErr (msg : bytes)
| BUnmodelled.

(* ---------- UTF-8 as Go decodes and encodes it *)

Definition is_cont (c : N) : bool := (128 <=? c) && (c <=? 191).

(* one step of utf8.DecodeRune: (rune, width); invalid -> (0xFFFD, 1) *)
Definition decode_rune (s : bytes) : N * nat :=
  match s with
  | [] => (65533, 0%nat)
  | c0 :: r =>
    if c0 <? 128 then (c0, 1%nat) else
    if (194 <=? c0) && (c0 <=? 223) then
      match r with
      | c1 :: _ => if is_cont c1 then ((c0 - 192) * 64 + (c1 - 128), 2%nat) else (65533, 1%nat)
      | _ => (65533, 1%nat)
      end
    else if (224 <=? c0) && (c0 <=? 239) then
      match r with
      | c1 :: c2 :: _ =>
        let lo := if c0 =? 224 then 160 else 128 in
        let hi := if c0 =? 237 then 159 else 191 in
        if (lo <=? c1) && (c1 <=? hi) && is_cont c2
        then ((c0 - 224) * 4096 + (c1 - 128) * 64 + (c2 - 128), 3%nat)
        else (65533, 1%nat)
      | _ => (65533, 1%nat)
      end
    else if (240 <=? c0) && (c0 <=? 244) then
      match r with
      | c1 :: c2 :: c3 :: _ =>
        let lo := if c0 =? 240 then 144 else 128 in
        let hi := if c0 =? 244 then 143 else 191 in
        if (lo <=? c1) && (c1 <=? hi) && is_cont c2 && is_cont c3
        then ((c0 - 240) * 262144 + (c1 - 128) * 4096 + (c2 - 128) * 64 + (c3 - 128), 4%nat)
        else (65533, 1%nat)
      | _ => (65533, 1%nat)
      end
    else (65533, 1%nat)
  end.

(* []rune(s) *)
Fixpoint runes_fuel (fuel : nat) (s : bytes) : list N :=
  match fuel with
  | O => []
  | S f =>
    match s with
    | [] => []
    | _ => let '(r, w) := decode_rune s in r :: runes_fuel f (skipn w s)
    end
  end.
Definition runes (s : bytes) : list N := runes_fuel (List.length s) s.

(* the byte slices of the characters (strings.Split(s, "") keeps the original bytes) *)
Fixpoint chars_fuel (fuel : nat) (s : bytes) : list bytes :=
  match fuel with
  | O => []
  | S f =>
    match s with
    | [] => []
    | _ => let '(_, w) := decode_rune s in firstn w s :: chars_fuel f (skipn w s)
    end
  end.
Definition chars (s : bytes) : list bytes := chars_fuel (List.length s) s.

(* string(rune) *)
Definition encode_rune (r : N) : bytes :=
  if r <? 128 then [r]
  else if r <? 2048 then [192 + r / 64; 128 + r mod 64]
  else if ((55296 <=? r) && (r <=? 57343)) || (1114111 <? r) then [239; 191; 189]
  else if r <? 65536 then [224 + r / 4096; 128 + (r / 64) mod 64; 128 + r mod 64]
  else [240 + r / 262144; 128 + (r / 4096) mod 64; 128 + (r / 64) mod 64; 128 + r mod 64].

Definition encode_runes (l : list N) : bytes := concat (map encode_rune l).

Definition utf8_valid (s : bytes) : bool :=
  bytes_eqb (encode_runes (runes s)) s.

Definition is_ascii (s : bytes) : bool := forallb (fun c => c <? 128) s.

Definition upper_byte (c : N) : N := if (97 <=? c) && (c <=? 122) then c - 32 else c.
Definition lower_byte (c : N) : N := if (65 <=? c) && (c <=? 90) then c + 32 else c.

(* ---------- strings package pieces *)

Definition inset (cut : bytes) (c : N) : bool := existsb (N.eqb c) cut.

Fixpoint trim_left (cut s : bytes) : bytes :=
  match s with
  | [] => []
  | c :: s' => if inset cut c then trim_left cut s' else s
  end.
Definition trim_right (cut s : bytes) : bytes := rev (trim_left cut (rev s)).

(* strings.Split(s, sep) for a non-empty sep *)
Fixpoint split_fuel (fuel : nat) (sep s cur : bytes) : list bytes :=
  match fuel with
  | O => [rev cur ++ s]
  | S f =>
    match s with
    | [] => [rev cur]
    | c :: s' =>
      if prefixb sep s then rev cur :: split_fuel f sep (skipn (List.length sep) s) []
      else split_fuel f sep s' (c :: cur)
    end
  end.

Definition split (sep s : bytes) : list bytes :=
  match sep with
  | [] => chars s
  | _ => split_fuel (S (List.length s)) sep s []
  end.

Fixpoint repeat_bytes (n : nat) (s : bytes) : bytes :=
  match n with O => [] | S n' => s ++ repeat_bytes n' s end.

(* repeatStr of evaluator/utils.go refuses (second component false) when the result would be
   longer than maxRepeatLen (regenerated from the source); count > 0 and s <> "" here *)
Definition repeat_too_long (s : bytes) (count : Z) : bool :=
  (maxRepeatLen / N.of_nat (List.length s) <? Z.to_N count).

(* utils.StrIsInt = strconv.Atoi succeeds: optional sign, digits, fits in int64 *)
Definition all_digits (s : bytes) : bool :=
  match s with [] => false | _ => forallb (fun c => (48 <=? c) && (c <=? 57)) s end.

Definition str_is_int (s : bytes) : bool :=
  match s with
  | [] => false
  | c :: r =>
    if (c =? 45) then all_digits r && (decz 0 r <=? 2 ^ 63)%Z
    else if (c =? 43) then all_digits r && (decz 0 r <? 2 ^ 63)%Z
    else all_digits s && (decz 0 s <? 2 ^ 63)%Z
  end.

(* html.UnescapeString, modelled on strings in which every '&' starts one of the five
   entities the escaper produces *)
Definition entities : list (bytes * bytes) :=
  [(bs "&amp;", [38]); (bs "&lt;", [60]); (bs "&gt;", [62]); (bs "&#34;", [34]); (bs "&#39;", [39])].

Fixpoint find_entity (es : list (bytes * bytes)) (s : bytes) : option (bytes * nat) :=
  match es with
  | [] => None
  | (e, r) :: es' => if prefixb e s then Some (r, List.length e) else find_entity es' s
  end.

Fixpoint unescape_fuel (fuel : nat) (s : bytes) : option bytes :=
  match fuel with
  | O => Some s
  | S f =>
    match s with
    | [] => Some []
    | c :: s' =>
      if c =? 38 then
        match find_entity entities s with
        | Some (r, n) => match unescape_fuel f (skipn n s) with
                         | Some t => Some (r ++ t) | None => None end
        | None => None
        end
      else match unescape_fuel f s' with Some t => Some (c :: t) | None => None end
    end
  end.
Definition unescape (s : bytes) : option bytes := unescape_fuel (S (List.length s)) s.

(* html.EscapeString *)
Definition escape_byte (c : N) : bytes :=
  if c =? 38 then bs "&amp;" else if c =? 39 then bs "&#39;" else if c =? 60 then bs "&lt;"
  else if c =? 62 then bs "&gt;" else if c =? 34 then bs "&#34;" else [c].
Definition html_escape (s : bytes) : bytes := concat (map escape_byte s).

(* evalString: escape, then put the quotes back *)
Definition eval_string_lit (s : bytes) : bytes :=
  replace_all (bs "&#39;") [39] (replace_all (bs "&#34;") [34] (html_escape s)).

(* ---------- structural equality as arrayContainsFunc sees it *)
Fixpoint value_eqb (a b : value) : bool :=
  match a, b with
  | VNil, VNil => true
  | VBool x, VBool y => Bool.eqb x y
  | VInt x, VInt y => (x =? y)%Z
  | VFloat x, VFloat y => f_eqb x y
  | VStr x, VStr y => bytes_eqb x y
  | VArr x, VArr y =>
    (fix go (l1 l2 : list value) : bool :=
       match l1, l2 with
       | [], [] => true
       | u :: l1', w :: l2' => value_eqb u w && go l1' l2'
       | _, _ => false
       end) x y
  | VObj x, VObj y =>
    Nat.eqb (List.length x) (List.length y) &&
    (fix go (l1 : list (bytes * value)) : bool :=
       match l1 with
       | [] => true
       | (k, u) :: l1' =>
         match alookup k y with
         | Some w => value_eqb u w && go l1'
         | None => false
         end
       end) x
  | _, _ => false
  end.

(* ---------- the built-ins *)

Definition ty_STRING := bs "STRING".
Definition ty_ARRAY := bs "ARRAY".
Definition ty_INTEGER := bs "INTEGER".

Definition str_arg0 (fname ty : bytes) (args : list value) (default : bytes) : bytes + bytes :=
  match args with
  | [] => inl default
  | VStr s :: _ => inl s
  | _ => inr (fmt ErrFuncFirstArgStr [fname; ty])
  end.

Definition to_int (z : Z) : Z := z.   (* int(x) on a 64-bit platform *)

Definition addDecimals (val : bytes) (ty : bytes) (args : list value) : bres :=
  if Nat.ltb 2 (List.length args) then BErr (fmt ErrFuncMaxArgs [bs "decimal"; ty; bs "2"]) else
  match (match args with
         | [] => inl (bs ".")
         | VStr s :: _ => inl s
         | _ => inr (fmt ErrFuncFirstArgStr [bs "decimal"; ty])
         end) with
  | inr e => BErr e
  | inl sep =>
    match (match args with
           | [_; VInt d] => inl d
           | [_; _] => inr (fmt ErrFuncSecondArgInt [bs "decimal"; ty])
           | _ => inl 2%Z
           end) with
    | inr e => BErr e
    | inl d =>
      (* the arguments are checked whatever the receiver is; a text that is no integer stays as it is *)
      if negb (str_is_int val) then BOk (VStr val)
      else if (d <=? 0)%Z then BOk (VStr val)
      else if repeat_too_long [48] d then BErr (fmt ErrFuncResultTooLong [bs "decimal"; ty; N_to_dec maxRepeatLen])
      else if (100000 <? d)%Z then BUnmodelled
      else BOk (VStr (val ++ sep ++ repeat_bytes (Z.to_nat d) [48]))
    end
  end.

Definition str_at (val : bytes) (args : list value) : bres :=
  match (match args with
         | [] => inl 0%Z
         | VInt i :: _ => inl i
         | _ => inr (fmt ErrFuncFirstArgInt [bs "at"; ty_STRING])
         end) with
  | inr e => BErr e
  | inl idx =>
    let cs := runes val in
    let n := Z.of_nat (List.length cs) in
    if (n =? 0)%Z then BOk VNil else
    let i := if (idx <? 0)%Z then (n + idx)%Z else idx in
    if (i <? 0)%Z || (n <=? i)%Z then BOk VNil
    else BOk (VStr (encode_rune (nth (Z.to_nat i) cs 0)))
  end.

Definition builtin_str (fname : bytes) (val : bytes) (args : list value) : option bres :=
  let is := bytes_eqb fname in
  if is (bs "len") then Some (BOk (VInt (Z.of_nat (List.length (runes val)))))
  else if is (bs "split") then
    Some (match str_arg0 fname ty_STRING args [32] with
          | inl sep => BOk (VArr (map VStr (split sep val)))
          | inr e => BErr e end)
  else if is (bs "raw") then
    Some (match unescape val with Some s => BOk (VStr s) | None => BUnmodelled end)
  else if is (bs "trim") || is (bs "trimRight") || is (bs "trimLeft") then
    Some (match str_arg0 fname ty_STRING args [9; 32; 10; 13] with
          | inl cut =>
            if negb (is_ascii cut) then BUnmodelled else
            BOk (VStr (if is (bs "trim") then trim_right cut (trim_left cut val)
                       else if is (bs "trimRight") then trim_right cut val
                       else trim_left cut val))
          | inr e => BErr e end)
  else if is (bs "upper") then
    Some (if is_ascii val then BOk (VStr (map upper_byte val)) else BUnmodelled)
  else if is (bs "lower") then
    Some (if is_ascii val then BOk (VStr (map lower_byte val)) else BUnmodelled)
  else if is (bs "capitalize") then
    Some (match val with
          | [] => BOk (VStr [])
          | c :: r => if c <? 128 then BOk (VStr (upper_byte c :: r)) else BUnmodelled
          end)
  else if is (bs "reverse") then Some (BOk (VStr (encode_runes (rev (runes val)))))
  else if is (bs "contains") then
    Some (match args with
          | [] => BErr (fmt ErrFuncRequiresOneArg [fname; ty_STRING])
          | VStr sub :: _ => BOk (VBool (containsb sub val))
          | _ => BErr (fmt ErrFuncFirstArgStr [fname; ty_STRING])
          end)
  else if is (bs "truncate") then
    Some (match args with
          | [] => BErr (fmt ErrFuncRequiresOneArg [fname; ty_STRING])
          | VInt lim :: rest =>
            let cs := runes val in
            let limit := if (lim <? 0)%Z then 0%Z else lim in
            if (Z.of_nat (List.length cs) <=? limit)%Z then BOk (VStr val) else
            match (match rest with
                   | [] => inl (bs "...")
                   | VStr e :: _ => inl e
                   | _ => inr (fmt ErrFuncSecondArgStr [fname; ty_STRING])
                   end) with
            | inl ell => BOk (VStr (encode_runes (firstn (Z.to_nat limit) cs) ++ ell))
            | inr e => BErr e
            end
          | _ => BErr (fmt ErrFuncFirstArgInt [fname; ty_STRING])
          end)
  else if is (bs "decimal") then Some (addDecimals val ty_STRING args)
  else if is (bs "at") then Some (str_at val args)
  else if is (bs "first") then Some (str_at val [VInt 0])
  else if is (bs "last") then Some (str_at val [VInt (-1)])
  else if is (bs "repeat") then
    Some (match args with
          | [] => BErr (fmt ErrFuncRequiresOneArg [fname; ty_STRING])
          | VInt n :: _ =>
            if (n <=? 0)%Z then BOk (VStr [])
            else match val with [] => BOk (VStr []) | _ =>
            if repeat_too_long val n then BErr (fmt ErrFuncResultTooLong [fname; ty_STRING; N_to_dec maxRepeatLen])
            else if (100000 <? n)%Z then BUnmodelled
            else BOk (VStr (repeat_bytes (Z.to_nat n) val)) end
          | _ => BErr (fmt ErrFuncFirstArgInt [fname; ty_STRING])
          end)
  else None.

Definition clampZ (lo hi x : Z) : Z := if (x <? lo)%Z then lo else if (hi <? x)%Z then hi else x.

Definition builtin_arr (fname : bytes) (elems : list value) (args : list value) : option bres :=
  let is := bytes_eqb fname in
  let n := Z.of_nat (List.length elems) in
  if is (bs "len") then Some (BOk (VInt n))
  else if is (bs "join") then
    Some (match str_arg0 fname ty_ARRAY args [44] with
          | inl sep =>
            match all_some (map value_string elems) with
            | Some ss => BOk (VStr (join sep ss))
            | None => BUnmodelled
            end
          | inr e => BErr e end)
  else if is (bs "rand") then Some (BOk (match elems with [] => VNil | x :: _ => x end))
  else if is (bs "reverse") then Some (BOk (VArr (rev elems)))
  else if is (bs "slice") then
    Some (match args with
          | [] => BErr (fmt ErrFuncRequiresOneArg [fname; ty_ARRAY])
          | VInt s :: rest =>
            let start := clampZ 0 n s in
            match rest with
            | [] => BOk (VArr (skipn (Z.to_nat start) elems))
            | VInt e :: _ =>
              let e1 := if (e <? 0)%Z || (n <? e)%Z then n else e in
              let e2 := if (e1 <? start)%Z then start else e1 in
              BOk (VArr (firstn (Z.to_nat (e2 - start)) (skipn (Z.to_nat start) elems)))
            | _ => BErr (fmt ErrFuncSecondArgInt [fname; ty_ARRAY])
            end
          | _ => BErr (fmt ErrFuncFirstArgInt [fname; ty_ARRAY])
          end)
  else if is (bs "shuffle") then
    Some (match elems with [] | [_] => BOk (VArr elems) | _ => BUnmodelled end)
  else if is (bs "contains") then
    Some (match args with
          | [] => BErr (fmt ErrFuncRequiresOneArg [fname; ty_ARRAY])
          | target :: _ => BOk (VBool (existsb (fun el => value_eqb el target) elems))
          end)
  else if is (bs "append") then
    Some (match args with
          | [] => BErr (fmt ErrFuncRequiresOneArg [fname; ty_ARRAY])
          | _ => BOk (VArr (elems ++ args))
          end)
  else if is (bs "prepend") then
    Some (match args with
          | [] => BErr (fmt ErrFuncRequiresOneArg [fname; ty_ARRAY])
          | _ => BOk (VArr (args ++ elems))
          end)
  else None.

Definition builtin_float (fname : bytes) (f : f64) (args : list value) : option bres :=
  let is := bytes_eqb fname in
  if is (bs "int") then Some (BOk (VInt (f_to_int f)))
  else if is (bs "str") then
    Some (match f_format f with Some s => BOk (VStr s) | None => BUnmodelled end)
  else if is (bs "abs") then
    Some (BOk (VFloat (if f_ltb f (f_ofZ 0) then f_neg f else f)))
  else if is (bs "ceil") then Some (BOk (VInt (f_to_int (f_ceil f))))
  else if is (bs "floor") then Some (BOk (VInt (f_to_int (f_floor f))))
  else if is (bs "round") then Some (BOk (VInt (f_to_int (f_round f))))
  else None.

Definition builtin_int (fname : bytes) (z : Z) (args : list value) : option bres :=
  let is := bytes_eqb fname in
  if is (bs "float") then Some (BOk (VFloat (f_ofZ z)))
  else if is (bs "abs") then Some (BOk (VInt (if (z <? 0)%Z then wrap64 (- z) else z)))
  else if is (bs "str") then Some (BOk (VStr (Z_to_dec z)))
  else if is (bs "len") then
    Some (BOk (VInt (Z.of_nat (List.length (Z_to_dec (Z.abs z))))))
  else if is (bs "decimal") then Some (addDecimals (Z_to_dec z) ty_INTEGER args)
  else None.

Definition builtin_bool (fname : bytes) (b : bool) (args : list value) : option bres :=
  let is := bytes_eqb fname in
  if is (bs "binary") then Some (BOk (VInt (if b then 1 else 0)))
  else if is (bs "then") then
    Some (match args with
          | [] => BErr (fmt ErrFuncRequiresOneArg [fname; bs "BOOLEAN"])
          | a :: rest => if b then BOk a else match rest with [] => BOk VNil | c :: _ => BOk c end
          end)
  else None.

(* the receiver types that have a function table at all *)
Definition has_func_table (v : value) : bool :=
  match v with
  | VStr _ | VArr _ | VFloat _ | VInt _ | VBool _ => true
  | _ => false
  end.

Definition call_builtin (fname : bytes) (recv : value) (args : list value) : option bres :=
  match recv with
  | VStr s => builtin_str fname s args
  | VArr l => builtin_arr fname l args
  | VFloat f => builtin_float fname f args
  | VInt z => builtin_int fname z args
  | VBool b => builtin_bool fname b args
  | _ => None
  end.
