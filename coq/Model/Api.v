(* Model of the root package: configuration, the template loader over an abstract
   file system (files.go, parser_utils.go, ast/program.go), Template.String /
   Response (template.go, utils.go), EvaluateString / EvaluateFile and the custom
   function registry (textwire.go) - as a state machine over operation histories. *)
From Coq Require Import String.
From TW Require Export Render GenMisc.
Open Scope N_scope.

(* ---------- abstract file system: relative path (to the process's cwd) -> node *)
Inductive fnode := FFile (content : bytes) | FDir | FDangling.
Definition fsys := list (bytes * fnode).

(* ---------- path/filepath on relative Unix paths *)
Fixpoint split_slash (s cur : bytes) : list bytes :=
  match s with
  | [] => [rev cur]
  | c :: s' => if c =? 47 then rev cur :: split_slash s' [] else split_slash s' (c :: cur)
  end.

Definition dot : bytes := [46].
Definition dotdot : bytes := [46; 46].

(* filepath.Clean for a relative path; the stack holds the components, newest first *)
Fixpoint clean_comps (cs : list bytes) (stack : list bytes) : list bytes :=
  match cs with
  | [] => rev stack
  | c :: cs' =>
    if bytes_eqb c [] || bytes_eqb c dot then clean_comps cs' stack
    else if bytes_eqb c dotdot then
      match stack with
      | top :: rest => if bytes_eqb top dotdot then clean_comps cs' (c :: stack) else clean_comps cs' rest
      | [] => clean_comps cs' [c]
      end
    else clean_comps cs' (c :: stack)
  end.

Definition clean_rel (p : bytes) : bytes :=
  match clean_comps (split_slash p []) [] with
  | [] => dot
  | cs => join [47] cs
  end.

Definition root_marker : bytes := bs "$ROOT".

(* filepath.Abs of a relative path: cwd is the case's root *)
Definition abs_path (p : bytes) : bytes :=
  let c := clean_rel p in
  if bytes_eqb c dot then root_marker else root_marker ++ [47] ++ c.

Fixpoint trim_left_byte (b : N) (s : bytes) : bytes :=
  match s with c :: s' => if c =? b then trim_left_byte b s' else s | [] => [] end.
Definition trim_right_byte (b : N) (s : bytes) : bytes := rev (trim_left_byte b (rev s)).
Definition trim_byte (b : N) (s : bytes) : bytes := trim_right_byte b (trim_left_byte b s).

Definition has_suffix (suf s : bytes) : bool := prefixb (rev suf) (rev s).
Definition trim_suffix (suf s : bytes) : bytes :=
  if has_suffix suf s then firstn (List.length s - List.length suf) s else s.
Definition trim_prefix (pre s : bytes) : bytes :=
  if prefixb pre s then skipn (List.length pre) s else s.

(* ---------- configuration and package state *)
Record config := mkConfig {
  c_dir : bytes; c_ext : bytes; c_errpage : bytes; c_debug : bool
}.

Definition default_config : config := mkConfig (bs "templates") (bs ".tw.html") [] false.

Definition configure (c : config) (dir ext errpage : bytes) (debug : bool) : config :=
  mkConfig (match dir with [] => c_dir c | _ => clean_rel (trim_byte 47 dir) end)
           (match ext with [] => c_ext c | _ => ext end)
           (match errpage with [] => c_errpage c | _ => errpage end)
           debug.

Definition join_paths (a b : bytes) : bytes := trim_right_byte 47 a ++ [47] ++ trim_left_byte 47 b.

Definition template_path (c : config) (name : bytes) : bytes :=
  abs_path (join_paths (c_dir c) name ++ c_ext c).

(* ---------- errors of the API: line, path, message *)
Record terr := mkErr { e_line : nat; e_path : bytes; e_msg : bytes }.

Inductive load_result (A : Type) :=
| LOk (a : A)
| LErr (e : terr)
| LPanic
| LOutOfFuel.
Arguments LOk {A} a.
Arguments LErr {A} e.
Arguments LPanic {A}.
Arguments LOutOfFuel {A}.

Notation "'let?' x := r 'in' k" :=
  (match r with LOk x => k | LErr e => LErr e | LPanic => LPanic | LOutOfFuel => LOutOfFuel end)
  (at level 200, x pattern, r at level 100, k at level 200).

(* the file system seen through os.ReadFile on an absolute path built by abs_path *)
Definition fs_lookup (fs : fsys) (rel : bytes) : option fnode := alookup (clean_rel rel) fs.

Definition not_exist_msg (abs : bytes) : bytes := bs "open " ++ abs ++ bs ": no such file or directory".
Definition is_dir_msg (abs : bytes) : bytes := bs "read " ++ abs ++ bs ": is a directory".

Inductive read_result := ReadOk (content : bytes) | ReadNotExist | ReadIsDir.

(* a directory exists when it is listed or when something lives below it *)
Definition dir_exists (fs : fsys) (rel : bytes) : bool :=
  let r := clean_rel rel in
  match alookup r fs with
  | Some FDir => true
  | _ => existsb (fun kv => prefixb (r ++ [47]) (fst kv)) fs || bytes_eqb r dot
  end.

Definition read_file (fs : fsys) (rel : bytes) : read_result :=
  match fs_lookup fs rel with
  | Some (FFile c) => ReadOk c
  | Some FDir => ReadIsDir
  | Some FDangling => ReadNotExist
  | None => if dir_exists fs rel then ReadIsDir else ReadNotExist
  end.

(* parseProgram(absPath): (program | parser error | read error) *)
Inductive parsed := PProg (p : program) | PFail (e : terr) | PReadErr (notexist : bool) (msg : bytes).

Definition parse_file (fs : fsys) (rel : bytes) : load_result parsed :=
  let abs := abs_path rel in
  match read_file fs rel with
  | ReadNotExist => LOk (PReadErr true (not_exist_msg abs))
  | ReadIsDir => LOk (PReadErr false (is_dir_msg abs))
  | ReadOk content =>
    match parse_source content with
    | ParsedOk p => LOk (PProg p)
    | ParseErrors ((ln, msg) :: _) => LOk (PFail (mkErr ln abs msg))
    | ParseErrors [] => LPanic
    | ParsePanic => LPanic
    | ParseOutOfFuel => LOutOfFuel
    end
  end.

(* ---------- AST rewriting: attach component programs and inserts *)

Section Rewrite.
Variable comp_block : nat -> option (list stmt).                 (* by cid *)
Variable reserve_ins : nat -> option (nat * expr * option (list stmt)).  (* by rid *)

Fixpoint rw_stmt (fuel : nat) (s : stmt) {struct fuel} : stmt :=
  match fuel with
  | O => s
  | S f =>
    let rw := map (rw_stmt f) in
    let rwo (o : option (list stmt)) := match o with Some b => Some (rw b) | None => None end in
    match s with
    | SIf ln c thn alts alt => SIf ln c (rw thn) (map (fun cb => (fst cb, rw (snd cb))) alts) (rwo alt)
    | SFor ln i c p body alt => SFor ln i c p (rw body) (rwo alt)
    | SEach ln v a body alt => SEach ln v a (rw body) (rwo alt)
    | SInsert ln n a body => SInsert ln n a (rwo body)
    | SReserve ln rid n ins =>
      match reserve_ins rid with
      | Some (iln, arg, body) => SReserve ln rid n (Some (iln, arg, body))
      | None => s
      end
    | SComponent ln cid n arg slots block =>
      let slots' := map (fun sl => match sl with (sln, sn, b) => (sln, sn, rw b) end) slots in
      match comp_block cid with
      | Some b =>
        (* the bodies this use passed sit in the block's placeholders as the page's own nodes (Go: the
           same pointers), so component uses inside them get their blocks too; the component FILE's
           own statements are not touched *)
        SComponent ln cid n arg slots'
          (Some (map (fun s => match s with
                               | SSlot sl sn (Some body) => SSlot sl sn (Some (rw body))
                               | _ => s
                               end) b))
      | None => SComponent ln cid n arg slots' block
      end
    | SSlot ln n body => SSlot ln n (rwo body)
    | _ => s
    end
  end.
End Rewrite.

Definition rw_fuel : nat := 200.

(* findSlotStmtIndex + assignment of the body: the first top-level @slot with that name *)
Fixpoint set_slot_body (ss : list stmt) (name : bytes) (body : list stmt) : option (list stmt) :=
  match ss with
  | [] => None
  | SSlot ln n b :: ss' =>
    if bytes_eqb n name then Some (SSlot ln n (Some body) :: ss')
    else match set_slot_body ss' name body with Some r => Some (SSlot ln n b :: r) | None => None end
  | s :: ss' => match set_slot_body ss' name body with Some r => Some (s :: r) | None => None end
  end.

(* findDuplicateSlot: the first slot (in source order) whose name occurs more than once *)
Definition count_name (slots : list (nat * bytes * list stmt)) (n : bytes) : nat :=
  List.length (filter (fun sl => bytes_eqb (snd (fst sl)) n) slots).

Fixpoint find_duplicate_slot (all slots : list (nat * bytes * list stmt)) : option (bytes * nat) :=
  match slots with
  | [] => None
  | (_, n, _) :: r => let k := count_name all n in
                      if Nat.ltb 1 k then Some (n, k) else find_duplicate_slot all r
  end.

(* Program.Line(): Token.ErrorLine() of the program token = the first token of the file *)
Definition prog_line (content : bytes) : nat :=
  match lex_all content with
  | Some (t :: _) => eline t
  | _ => 1%nat
  end.

Section Loader.
Variable fs : fsys.
Variable cfg : config.

Definition rel_of (name : bytes) : bytes := join_paths (c_dir cfg) name ++ c_ext cfg.

(* ApplyComponent for one use: the component program with this use's slot bodies *)
Definition apply_component (page_abs : bytes) (cline : nat) (name : bytes)
           (slots : list (nat * bytes * list stmt)) (cprog : program) (cprog_line : nat)
  : load_result (list stmt) :=
  match find_duplicate_slot slots slots with
  | Some (dn, times) =>
    match name with
    | [] => LErr (mkErr cprog_line page_abs (fmt ErrDuplicateDefaultSlotUsage [nat_to_dec times; name]))
    | _ => LErr (mkErr cprog_line page_abs (fmt ErrDuplicateSlotUsage [dn; nat_to_dec times; name]))
    end
  | None =>
    (fix go (sl : list (nat * bytes * list stmt)) (ss : list stmt) : load_result (list stmt) :=
       match sl with
       | [] => LOk ss
       | (_, sn, body) :: sl' =>
         match set_slot_body ss sn body with
         | Some ss' => go sl' ss'
         | None =>
           match sn with
           | [] => LErr (mkErr cprog_line page_abs (fmt ErrDefaultSlotNotDefined [name]))
           | _ => LErr (mkErr cprog_line page_abs (fmt ErrSlotNotDefined [sn; name]))
           end
         end
       end) slots (p_stmts cprog)
  end.

(* applyComponentToProgram: resolve every component use of the page, in parse order *)
Fixpoint resolve_components (page_abs : bytes)
         (comps : list (nat * nat * bytes * list (nat * bytes * list stmt)))
  : load_result (list (nat * list stmt)) :=
  match comps with
  | [] => LOk []
  | (cid, cline, name, slots) :: rest =>
    let crel := rel_of name in
    let? pr := parse_file fs crel in
    match pr with
    | PReadErr true _ => LErr (mkErr cline page_abs (fmt ErrUndefinedComponent [name]))
    | PReadErr false msg => LErr (mkErr cline (abs_path crel) msg)
    | PFail e => LErr e
    | PProg cp =>
      let cl := match read_file fs crel with ReadOk c => prog_line c | _ => 1%nat end in
      let? ss := apply_component page_abs cline name slots cp cl in
      let? more := resolve_components page_abs rest in
      LOk ((cid, ss) :: more)
    end
  end.

Definition lookup_nat {A} (k : nat) (m : list (nat * A)) : option A :=
  (fix go (m : list (nat * A)) := match m with
     | [] => None | (k', v) :: m' => if Nat.eqb k k' then Some v else go m' end) m.

(* checkUndefinedInsert: inserts in name order, the first that matches no reserve *)
Fixpoint undefined_insert (ins : list (bytes * insert_rec)) (reserves : list (bytes * nat))
  : option insert_rec :=
  match ins with
  | [] => None
  | (n, i) :: r => match alookup n reserves with
                   | Some _ => undefined_insert r reserves
                   | None => Some i
                   end
  end.

(* one page: parse, apply its layout, apply its components.
   Result: the final statements and whether the file declares reserves (a layout). *)
Definition load_page (rel : bytes) : load_result (list stmt * bool) :=
  let page_abs := abs_path rel in
  let? pr := parse_file fs rel in
  match pr with
  | PReadErr _ msg => LErr (mkErr 0 page_abs msg)
  | PFail e => LErr e
  | PProg p =>
    (* applyLayoutToProgram *)
    let? layout :=
      (match p_use p with
       | None => LOk None
       | Some (uln, lname) =>
         let lrel := rel_of lname in
         let labs := abs_path lrel in
         let? lr := parse_file fs lrel in
         match lr with
         | PReadErr _ msg => LErr (mkErr uln labs msg)
         | PFail e => LErr e
         | PProg lp =>
           match undefined_insert (asort (p_inserts p)) (p_reserves lp) with
           | Some i => LErr (mkErr (ins_ln i) page_abs (fmt ErrUndefinedInsert [ins_name i]))
           | None => LOk (Some (uln, lname, lp))
           end
         end
       end) in
    (* applyComponentToProgram *)
    let? blocks := resolve_components page_abs (p_components p) in
    let attach_comps := rw_stmt (fun cid => lookup_nat cid blocks) (fun _ => None) rw_fuel in
    match layout with
    | None => LOk (map attach_comps (p_stmts p), match p_reserves p with [] => false | _ => true end)
    | Some (uln, lname, lp) =>
      (* the inserts as they are after the components were attached *)
      let ins_of (name : bytes) : option (nat * expr * option (list stmt)) :=
        match alookup name (p_inserts p) with
        | Some i => Some (ins_ln i, ins_arg i,
                          match ins_body i with Some b => Some (map attach_comps b) | None => None end)
        | None => None
        end in
      (* reserve.Insert is set on the statements held in the layout's Reserves map *)
      let by_rid (rid : nat) : option (nat * expr * option (list stmt)) :=
        (fix go (rs : list (bytes * nat)) := match rs with
           | [] => None
           | (n, r) :: rs' => if Nat.eqb r rid then ins_of n else go rs'
           end) (p_reserves lp) in
      let lstmts := map (rw_stmt (fun _ => None) by_rid rw_fuel) (p_stmts lp) in
      let has_use := match p_use lp with Some _ => true | None => false end in
      LOk ([SUse uln lname (Some (true, has_use, lstmts))],
           match p_reserves p with [] => false | _ => true end)
    end
  end.

(* findTextwireFiles: the walk, lexical order; (name, relative path) *)
Definition walk_files : load_result (list (bytes * bytes)) :=
  let dir := c_dir cfg in
  let pre := if bytes_eqb dir dot then [] else dir ++ [47] in
  if negb (dir_exists fs dir) then
    (* Walk reports the lstat error of the root *)
    LErr (mkErr 0 [] (bs "lstat " ++ dir ++ bs ": no such file or directory"))
  else
    LOk (map (fun kv => (trim_suffix (c_ext cfg) (trim_prefix (dir ++ [47]) (fst kv)), fst kv))
             (filter (fun kv => prefixb pre (fst kv) &&
                                match snd kv with FDir => false | _ => true end &&
                                has_suffix (c_ext cfg) (fst kv)) fs)).

(* parsePrograms over the found files in name order *)
Fixpoint load_all (files : list (bytes * bytes)) : load_result (list (bytes * list stmt)) :=
  match files with
  | [] => LOk []
  | (name, rel) :: rest =>
    let? pg := load_page rel in
    let? more := load_all rest in
    LOk (if snd pg then more else (name, fst pg) :: more)
  end.

Definition new_template : load_result (list (bytes * list stmt)) :=
  let? files := walk_files in
  load_all (asort files).

End Loader.

(* ---------- Template.String *)
Inductive str_result :=
| StrOk (out : bytes)
| StrErr (e : terr)
| StrUnsupportedData
| StrPanic
| StrOutOfFuel
| StrUnmodelled.

Definition template_string (cx : ctx) (cfg : config) (tpl : list (bytes * list stmt))
           (name : bytes) (data : list (bytes * goval)) : str_result :=
  match env_from_map data with
  | EnvUnsupported => StrUnsupportedData
  | EnvErr msg => StrErr (mkErr 0 [] msg)
  | EnvOk en =>
    let abs := template_path cfg name in
    match alookup name tpl with
    | None => StrErr (mkErr 0 abs (fmt ErrTemplateNotFound []))
    | Some ss =>
      match eval_program cx eval_fuel en ss [] with
      | Ok r => StrOk (fst r)
      | Fail ln msg => StrErr (mkErr ln abs msg)
      | Panic => StrPanic
      | OutOfFuel => StrOutOfFuel
      | Unmodelled => StrUnmodelled
      end
    end
  end.

(* fail.Error.String() *)
Definition err_string (e : terr) : bytes :=
  bs "[Textwire ERROR" ++
  (match e_path e with [] => [] | p => bs " in " ++ p end) ++
  bs ":" ++ nat_to_dec (e_line e) ++ bs "]:" ++ [10] ++ e_msg e.

(* ---------- Template.Response: (body, returned error) *)
Inductive resp_result :=
| RespOk (body : bytes)
| RespFail (body : bytes) (e : terr)          (* error = the template's own failure *)
| RespFailOther (body : bytes) (e : terr)     (* error of the error page itself *)
| RespUnsupportedData
| RespPanic
| RespOutOfFuel
| RespUnmodelled.

(* errorPage(failErr): the built-in page rendered with path, line, message, debugMode *)
Definition builtin_error_page (cx : ctx) (cfg : config) (e : terr) : render_result :=
  evaluate_string cx default_error_page
    [(bs "path", GStr (e_path e)); (bs "line", GInt (Z.of_nat (e_line e)));
     (bs "message", GStr (e_msg e)); (bs "debugMode", GBool (c_debug cfg))].

Definition template_response (cx : ctx) (cfg : config) (tpl : list (bytes * list stmt))
           (name : bytes) (data : list (bytes * goval)) : resp_result :=
  match template_string cx cfg tpl name data with
  | StrOk out => RespOk out
  | StrUnsupportedData => RespUnsupportedData
  | StrPanic => RespPanic
  | StrOutOfFuel => RespOutOfFuel
  | StrUnmodelled => RespUnmodelled
  | StrErr e =>
    match c_errpage cfg, c_debug cfg with
    | (_ :: _) as page, false =>
      match template_string cx cfg tpl page [] with
      | StrOk out => RespFail out e
      | StrErr e2 => RespFailOther [] e2
      | StrUnsupportedData => RespUnsupportedData
      | StrPanic => RespPanic
      | StrOutOfFuel => RespOutOfFuel
      | StrUnmodelled => RespUnmodelled
      end
    | _, _ =>
      match builtin_error_page cx cfg e with
      | RenderOk out => RespFail out e
      | RenderErr ln msg => RespFailOther [] (mkErr ln [] msg)
      | RenderUnsupportedData => RespUnsupportedData
      | RenderPanic => RespPanic
      | RenderOutOfFuel => RespOutOfFuel
      | RenderUnmodelled => RespUnmodelled
      end
    end
  end.

(* ---------- the API as a state machine *)
Record gstate := mkState {
  g_cfg : config;
  g_funcs : list (bytes * bytes * fnid);     (* first registration wins *)
  g_tpl : option (list (bytes * list stmt))
}.

Definition init_state : gstate := mkState default_config [] None.

Inductive op :=
| OpNew (dir ext errpage : bytes) (debug : bool)
| OpString (name : bytes) (data : list (bytes * goval))
| OpResponse (name : bytes) (data : list (bytes * goval))
| OpEvalStr (src : bytes) (data : list (bytes * goval))
| OpEvalFile (rel : bytes) (data : list (bytes * goval))
| OpReg (ty name : bytes) (f : fnid)
| OpConfigure (dir ext errpage : bytes) (debug : bool).   (* textwire.Configure: the loaded templates stay *)

Inductive obs :=
| ObsNewOk (names : list bytes)
| ObsErr (e : terr)
| ObsOut (out : bytes)
| ObsResp (r : resp_result)
| ObsRegOk
| ObsNoTemplate
| ObsUnsupportedData
| ObsPanic
| ObsOutOfFuel
| ObsUnmodelled.

Definition type_plural (ty : bytes) : bytes :=
  if bytes_eqb ty (bs "STRING") then bs "strings"
  else if bytes_eqb ty (bs "ARRAY") then bs "arrays"
  else if bytes_eqb ty (bs "INTEGER") then bs "integers"
  else if bytes_eqb ty (bs "FLOAT") then bs "floats"
  else bs "booleans".

Definition has_func (fs : list (bytes * bytes * fnid)) (ty name : bytes) : bool :=
  existsb (fun e => bytes_eqb (fst (fst e)) ty && bytes_eqb (snd (fst e)) name) fs.

Definition obs_of_render (r : render_result) : obs :=
  match r with
  | RenderOk out => ObsOut out
  | RenderErr ln msg => ObsErr (mkErr ln [] msg)
  | RenderUnsupportedData => ObsUnsupportedData
  | RenderPanic => ObsPanic
  | RenderOutOfFuel => ObsOutOfFuel
  | RenderUnmodelled => ObsUnmodelled
  end.

Definition step (fs : fsys) (st : gstate) (o : op) : gstate * obs :=
  let cx := mkCtx (g_funcs st) in
  match o with
  | OpNew dir ext errpage debug =>
    let cfg := configure (g_cfg st) dir ext errpage debug in
    match new_template fs cfg with
    | LOk tpl => (mkState cfg (g_funcs st) (Some tpl), ObsNewOk (map fst tpl))
    | LErr e => (mkState cfg (g_funcs st) None, ObsErr e)
    | LPanic => (mkState cfg (g_funcs st) None, ObsPanic)
    | LOutOfFuel => (mkState cfg (g_funcs st) None, ObsOutOfFuel)
    end
  | OpString name data =>
    match g_tpl st with
    | None => (st, ObsNoTemplate)
    | Some tpl =>
      (st, match template_string cx (g_cfg st) tpl name data with
           | StrOk out => ObsOut out
           | StrErr e => ObsErr e
           | StrUnsupportedData => ObsUnsupportedData
           | StrPanic => ObsPanic
           | StrOutOfFuel => ObsOutOfFuel
           | StrUnmodelled => ObsUnmodelled
           end)
    end
  | OpResponse name data =>
    match g_tpl st with
    | None => (st, ObsNoTemplate)
    | Some tpl => (st, ObsResp (template_response cx (g_cfg st) tpl name data))
    end
  | OpEvalStr src data => (st, obs_of_render (evaluate_string cx src data))
  | OpEvalFile rel data =>
    (st, match read_file fs rel with
         | ReadOk c => obs_of_render (evaluate_string cx c data)
         | ReadNotExist => ObsErr (mkErr 0 (abs_path rel) (not_exist_msg (abs_path rel)))
         | ReadIsDir => ObsErr (mkErr 0 (abs_path rel) (is_dir_msg (abs_path rel)))
         end)
  | OpReg ty name f =>
    if has_func (g_funcs st) ty name
    then (st, ObsErr (mkErr 0 [] (fmt ErrFuncAlreadyDefined [name; type_plural ty])))
    else (mkState (g_cfg st) (g_funcs st ++ [(ty, name, f)]) (g_tpl st), ObsRegOk)
  | OpConfigure dir ext errpage debug =>
    (mkState (configure (g_cfg st) dir ext errpage debug) (g_funcs st) (g_tpl st), ObsRegOk)
  end.

Fixpoint run_history (fs : fsys) (st : gstate) (ops : list op) : list obs :=
  match ops with
  | [] => []
  | o :: ops' => let '(st', ob) := step fs st o in ob :: run_history fs st' ops'
  end.
