(* Values of package object, their String(), Type() and the Go-data binding. *)
From Coq Require Import String.
From TW Require Export Bytes Floats GenFail.
From TW Require Import GenMisc.
Open Scope N_scope.

Inductive value :=
| VNil
| VBool (b : bool)
| VInt (z : Z)
| VFloat (f : f64)
| VStr (s : bytes)
| VArr (l : list value)
| VObj (m : list (bytes * value))      (* Go map: unique keys *)
| VHtml (s : bytes)
| VBlock (l : list value)
| VBreak
| VContinue
| VUse (content : value)
| VReserve (content : value) (arg : option value)
| VComponent (content : value)
| VSlot (content : value)
| VDump (vals : list bytes).

Definition type_name (v : value) : bytes :=
  bs (match v with
      | VNil => "NIL" | VBool _ => "BOOLEAN" | VInt _ => "INTEGER" | VFloat _ => "FLOAT"
      | VStr _ => "STRING" | VArr _ => "ARRAY" | VObj _ => "OBJECT" | VHtml _ => "HTML"
      | VBlock _ => "BLOCK" | VBreak => "BREAK" | VContinue => "CONTINUE" | VUse _ => "LAYOUT"
      | VReserve _ _ => "RESERVE" | VComponent _ => "COMPONENT" | VSlot _ => "SLOT"
      | VDump _ => "DUMP"
      end)%string.

Definition same_type (a b : value) : bool := bytes_eqb (type_name a) (type_name b).

Definition wrap64 (z : Z) : Z := ((z + 2 ^ 63) mod 2 ^ 64 - 2 ^ 63)%Z.

Fixpoint join (sep : bytes) (l : list bytes) : bytes :=
  match l with
  | [] => []
  | [x] => x
  | x :: l' => x ++ sep ++ join sep l'
  end.

Fixpoint all_some {A} (l : list (option A)) : option (list A) :=
  match l with
  | [] => Some []
  | Some x :: l' => match all_some l' with Some r => Some (x :: r) | None => None end
  | None :: _ => None
  end.

(* ---------- @dump: Object.Dump(ident) for the values an expression can have, and the frame
   (object/dump.go: outputHTML, a format with one %s, regenerated into GenMisc.dump_output_html) *)
Fixpoint split_fmt (t : bytes) : bytes * bytes :=
  match t with
  | [] => ([], [])
  | c :: t' =>
    if (c =? 37) && (hd 0 t' =? 115) then ([], tl t')
    else let (a, b) := split_fmt t' in (c :: a, b)
  end.
Definition dump_frame (v : bytes) : bytes :=
  let (pre, post) := split_fmt dump_output_html in pre ++ v ++ post.

Definition hex_digit (d : N) : N := if d <? 10 then 48 + d else 87 + d.

(* strconv.Quote (the %q verb) on ASCII; None for bytes >= 128 (Unmodelled) *)
Fixpoint quote_body (s : bytes) : option bytes :=
  match s with
  | [] => Some []
  | c :: s' =>
    match quote_body s' with
    | None => None
    | Some r =>
      if c =? 34 then Some (92 :: 34 :: r)
      else if c =? 92 then Some (92 :: 92 :: r)
      else if (32 <=? c) && (c <=? 126) then Some (c :: r)
      else if c =? 7 then Some (92 :: 97 :: r)        (* \a *)
      else if c =? 8 then Some (92 :: 98 :: r)        (* \b *)
      else if c =? 12 then Some (92 :: 102 :: r)      (* \f *)
      else if c =? 10 then Some (92 :: 110 :: r)      (* \n *)
      else if c =? 13 then Some (92 :: 114 :: r)      (* \r *)
      else if c =? 9 then Some (92 :: 116 :: r)       (* \t *)
      else if c =? 11 then Some (92 :: 118 :: r)      (* \v *)
      else if c <? 128 then Some (92 :: 120 :: hex_digit (c / 16) :: hex_digit (c mod 16) :: r)   (* \x.. *)
      else None
    end
  end.
Definition go_quote (s : bytes) : option bytes :=
  match quote_body s with Some r => Some (34 :: r ++ [34]) | None => None end.

Definition indent (n : nat) : bytes := concat (repeat [32; 32] n).
Definition ends_with (suf s : bytes) : bool := prefixb (rev suf) (rev s).

Fixpoint dump_value (ident : nat) (v : value) {struct v} : option bytes :=
  match v with
  | VNil => Some (bs "<span class='textwire-keyword'>nil</span>")
  | VBool b => Some (bs "<span class='textwire-keyword'>" ++ (if b then bs "true" else bs "false") ++ bs "</span>")
  | VInt z => Some (bs "<span class='textwire-num'>" ++ Z_to_dec z ++ bs "</span>")
  | VFloat f => match f_string f with
                | Some t => Some (bs "<span class='textwire-num'>" ++ t ++ bs "</span>")
                | None => None
                end
  | VStr t => match go_quote t with
              | Some q => Some (bs "<span class='textwire-str'>" ++ q ++ bs "</span>")
              | None => None
              end
  | VArr l =>
    match all_some (map (dump_value (S ident)) l) with
    | Some ds =>
      let res := bs "<span class='textwire-meta'>array:" ++ nat_to_dec (List.length l) ++ bs " </span>" ++
                 bs "<span class='textwire-brace'>[</span>" ++ [10] ++
                 concat (map (fun d => indent (S ident) ++ d ++ [44; 10]) ds) in
      let res' := if ends_with (bs "}</span>") res then res ++ [10] else res in
      Some (res' ++ indent ident ++ bs "<span class='textwire-brace'>]</span>")
    | None => None
    end
  | VObj m =>
    let ds := map (fun kv => match kv with (k, x) => (k, dump_value (S ident) x) end) m in
    match all_some (map (fun kd => match snd kd with
                                   | Some d => Some (indent (S ident) ++ bs "<span class=""textwire-prop"">""" ++ fst kd ++
                                                     bs """</span>" ++ bs ": " ++ d ++ [44; 10])
                                   | None => None end) (asort ds)) with
    | Some ls =>
      Some (bs "<span class='textwire-meta'>object:" ++ nat_to_dec (List.length m) ++ bs " </span>" ++
            bs "<span class='textwire-brace'>{</span>" ++ [10] ++ concat ls ++
            indent ident ++ bs "<span class='textwire-brace'>}</span>")
    | None => None
    end
  | _ => None      (* statement objects cannot be the value of an expression *)
  end.

(* Object.String(); None = a float outside the printable class (Unmodelled) *)
Fixpoint value_string (v : value) : option bytes :=
  match v with
  | VNil => Some []
  | VBool b => Some (if b then [49] else [48])
  | VInt z => Some (Z_to_dec z)
  | VFloat f => f_string f
  | VStr s => Some s
  | VArr l =>
    match all_some (map value_string l) with
    | Some ss => Some (join [44; 32] ss)
    | None => None
    end
  | VObj m =>
    let strs := map (fun kv => match kv with (k, x) => (k, value_string x) end) m in
    match all_some (map (fun ks => match snd ks with
                                   | Some s => Some (fst ks ++ [58; 32] ++ s)
                                   | None => None end) (asort strs)) with
    | Some ss => Some ([123] ++ join [44; 32] ss ++ [125])
    | None => None
    end
  | VHtml s => Some s
  | VBlock l =>
    match all_some (map value_string l) with
    | Some ss => Some (concat ss)
    | None => None
    end
  | VBreak | VContinue => Some []
  | VUse c => value_string c
  | VReserve c a => match a with Some x => value_string x | None => value_string c end
  | VComponent c => value_string c
  | VSlot c => value_string c
  | VDump vals => Some (concat (map dump_frame vals))
  end.

(* hasControlStmt(obj, BREAK_OBJ / CONTINUE_OBJ): recursive scan through nested Blocks *)
Fixpoint has_break (v : value) : bool :=
  match v with
  | VBlock l => existsb has_break l
  | VBreak => true
  | _ => false
  end.

Fixpoint has_continue (v : value) : bool :=
  match v with
  | VBlock l => existsb has_continue l
  | VContinue => true
  | _ => false
  end.

(* isTruthy *)
Definition truthy (v : value) : bool :=
  match v with
  | VBool b => b
  | VInt z => negb (z =? 0)%Z
  | VFloat f => negb (f_is_zero f)
  | VStr s => match s with [] => false | _ => true end
  | VNil => false
  | _ => true
  end.

(* ---------- Go data handed to a render *)

Inductive goval :=
| GNil
| GBool (b : bool)
| GInt (z : Z)                   (* any signed/unsigned width, value already as int64(v) would see it *)
| GFloat (f : f64)               (* float64, or float32 widened *)
| GStr (s : bytes)
| GSlice (l : list goval)
| GMap (m : list (bytes * goval))
| GStruct (fields : list (bytes * bool * goval))   (* name, exported, value *)
| GPtr (v : goval)
| GNilPtr
| GOther.                        (* chan, func, complex, array, ... *)

Definition all_some_map {A B} (f : A -> option B) : list A -> option (list B) :=
  fix go (l : list A) : option (list B) :=
    match l with
    | [] => Some []
    | x :: l' => match f x with
                 | Some y => match go l' with Some r => Some (y :: r) | None => None end
                 | None => None
                 end
    end.

(* NativeToObject; None = nil Object = unsupported *)
Fixpoint to_object (g : goval) : option value :=
  match g with
  | GNil => Some VNil
  | GBool b => Some (VBool b)
  | GInt z => Some (VInt (wrap64 z))
  | GFloat f => Some (VFloat f)
  | GStr s => Some (VStr s)
  | GSlice l =>
    match all_some_map to_object l with Some vs => Some (VArr vs) | None => None end
  | GMap m =>
    match all_some_map (fun kv => match kv with (k, x) =>
                                    match to_object x with
                                    | Some v => Some (k, v) | None => None end end) m with
    | Some kvs => Some (VObj (fold_left (fun (acc : list (bytes * value)) kv =>
                                           aset (fst kv) (snd kv) acc) kvs []))
    | None => None
    end
  | GStruct fields =>
    match all_some_map (fun f : bytes * bool * goval =>
                          match f with (n, ex, v) =>
                            if ex then match to_object v with
                                       | Some o => Some (Some (n, o)) | None => None end
                            else Some (@None (bytes * value)) end) fields with
    | Some kvs => Some (VObj (fold_left (fun (acc : list (bytes * value)) kv =>
                                           match kv with
                                           | Some (k, v) => aset k v acc
                                           | None => acc end) kvs []))
    | None => None
    end
  | GPtr v => to_object v
  | GNilPtr => Some VNil
  | GOther => None
  end.
