(* Model of lexer/lexer.go, field by field and function by function.
   Loops are structural recursions on the remaining input ([r] is always passed
   as [rest l]; the Go loop exits on char = 0 exactly when the model's list is
   empty).  The only fuel is the recursion of NextToken after a comment. *)
From TW Require Export Bytes GenToken.
Open Scope N_scope.

Record token := mkToken {
  ttype : tok;
  tlit : bytes;
  tsl : nat;  (* Pos.StartLine *)
  tsc : nat;  (* Pos.StartCol *)
  tel : nat;  (* Pos.EndLine *)
  tec : nat   (* Pos.EndCol *)
}.

Record lexer := mkLexer {
  rest : bytes;        (* input[pos:], [] once pos >= len(input) *)
  lpos : nat;          (* pos (readPos = pos + 1) *)
  lprev : N;           (* input[pos-1] while 0 < pos <= len(input) *)
  col : nat;
  prevCol : nat;
  startCol : nat;
  shouldResetCol : bool;
  line : nat;
  prevLine : nat;
  startLine : nat;
  isHTML : bool;
  isDirective : bool;
  parenCount : Z;      (* countDirectiveParentheses *)
  braceCount : Z       (* countCurlyBraces *)
}.

Definition cur (l : lexer) : N := hd 0 (rest l).           (* l.char *)
Definition peekChar (l : lexer) : N := hd 0 (tl (rest l)).
Definition prevChar (l : lexer) : N := if Nat.eqb (lpos l) 0 then 0 else lprev l.

Definition tok_eqb (a b : tok) : bool := Nat.eqb (tok_index a) (tok_index b).

Definition directives_b : list (bytes * tok) := map (fun p => (bs (fst p), snd p)) directives.
Definition keywords_b : list (bytes * tok) := map (fun p => (bs (fst p), snd p)) keywords.

Definition lookupDirective (kw : bytes) : tok :=
  match alookup kw directives_b with Some t => t | None => T_ILLEGAL end.

Definition lookupIdent (id : bytes) : tok :=
  match alookup id keywords_b with Some t => t | None => T_IDENT end.

Definition longestDirective : nat :=
  fold_right (fun p m => Nat.max (length (fst p)) m) O directives_b.

Definition isIdent (c : N) : bool :=
  ((97 <=? c) && (c <=? 122)) || ((65 <=? c) && (c <=? 90)) || (c =? 95).
Definition isLetterWord (c : N) : bool :=
  ((97 <=? c) && (c <=? 122)) || ((65 <=? c) && (c <=? 90)) || (c =? 64).
Definition isNumber (c : N) : bool := (48 <=? c) && (c <=? 57).
Definition isWs (c : N) : bool := (c =? 32) || (c =? 9) || (c =? 10) || (c =? 13).

(* New(input): the first readChar does not advance *)
Definition newLexer (input : bytes) : lexer :=
  {| rest := input; lpos := 0; lprev := 0; col := 0; prevCol := 0; startCol := 0;
     shouldResetCol := (hd 0 input =? 10); line := 0; prevLine := 0; startLine := 0;
     isHTML := true; isDirective := false; parenCount := 0%Z; braceCount := 0%Z |}.

Definition readChar (l : lexer) : lexer :=
  let rest' := tl (rest l) in
  let col1 := S (col l) in
  {| rest := rest';
     lpos := S (lpos l);
     lprev := cur l;
     col := if shouldResetCol l then O else col1;
     prevCol := col l;
     startCol := startCol l;
     shouldResetCol := (hd 0 rest' =? 10);
     line := if shouldResetCol l then S (line l) else line l;
     prevLine := line l;
     startLine := startLine l;
     isHTML := isHTML l; isDirective := isDirective l;
     parenCount := parenCount l; braceCount := braceCount l |}.

Definition tokenBegins (l : lexer) : lexer :=
  {| rest := rest l; lpos := lpos l; lprev := lprev l; col := col l; prevCol := prevCol l;
     startCol := col l; shouldResetCol := shouldResetCol l; line := line l;
     prevLine := prevLine l; startLine := line l; isHTML := isHTML l;
     isDirective := isDirective l; parenCount := parenCount l; braceCount := braceCount l |}.

Definition setModes (l : lexer) (html dir : bool) : lexer :=
  {| rest := rest l; lpos := lpos l; lprev := lprev l; col := col l; prevCol := prevCol l;
     startCol := startCol l; shouldResetCol := shouldResetCol l; line := line l;
     prevLine := prevLine l; startLine := startLine l; isHTML := html;
     isDirective := dir; parenCount := parenCount l; braceCount := braceCount l |}.

Definition setCounts (l : lexer) (p b : Z) : lexer :=
  {| rest := rest l; lpos := lpos l; lprev := lprev l; col := col l; prevCol := prevCol l;
     startCol := startCol l; shouldResetCol := shouldResetCol l; line := line l;
     prevLine := prevLine l; startLine := startLine l; isHTML := isHTML l;
     isDirective := isDirective l; parenCount := p; braceCount := b |}.

Definition newToken (l : lexer) (ty : tok) (lit : bytes) : token :=
  if tok_eqb ty T_EOF
  then mkToken ty lit (startLine l) (startCol l) (line l) (col l)
  else mkToken ty lit (startLine l) (startCol l) (prevLine l) (prevCol l).

(* tokenBegins; k times readChar; newToken *)
Fixpoint readN (k : nat) (l : lexer) : lexer :=
  match k with O => l | S k' => readN k' (readChar l) end.

Definition fixedToken (l : lexer) (k : nat) (ty : tok) (lit : bytes) : token * lexer :=
  let l' := readN k (tokenBegins l) in (newToken l' ty lit, l').

Fixpoint skipWs (r : bytes) (l : lexer) : lexer :=
  match r with
  | [] => l
  | _ :: r' => if isWs (cur l) then skipWs r' (readChar l) else l
  end.
Definition skipWhitespace (l : lexer) : lexer := skipWs (rest l) l.

(* isDirectiveToken: (isDirective, escapedDirective) *)
Fixpoint isDirTok_loop (n i : nat) (l : lexer) : bool * bool :=
  match n with
  | O => (false, false)
  | S n' =>
    if Nat.ltb (length (rest l)) i then (false, false)
    else if tok_eqb (lookupDirective (firstn i (rest l))) T_ILLEGAL
         then isDirTok_loop n' (S i) l
         else if prevChar l =? 92 then (false, true) else (true, false)
  end.

Definition isDirectiveToken (l : lexer) : bool * bool :=
  if negb (cur l =? 64) then (false, false)
  else isDirTok_loop longestDirective 1 l.

Definition areBracesToken (l : lexer) : bool * bool :=
  let braces := (cur l =? 123) && (peekChar l =? 123) in
  (braces && negb (prevChar l =? 92), (prevChar l =? 92) && braces).

(* readHTML loop; out is the reversed buffer *)
Fixpoint readHTML_loop (r : bytes) (l : lexer) (out : bytes) : lexer * bytes :=
  match r with
  | [] => (l, out)
  | _ :: r' =>
    if negb (isHTML l) || (cur l =? 0) then (l, out) else
    let '(isDir, escDir) := isDirectiveToken l in
    let '(areBr, escBr) := areBracesToken l in
    if areBr || isDir then (l, out) else
    let out1 := if escDir || escBr then tl out else out in
    if escBr then
      (* both braces are text *)
      let l1 := readChar l in
      match r' with
      | _ :: r'' => readHTML_loop r'' (readChar l1) (cur l1 :: cur l :: out1)
      | [] => (readChar l1, cur l1 :: cur l :: out1)   (* unreachable: "{{" has two bytes *)
      end
    else readHTML_loop r' (readChar l) (cur l :: out1)
  end.

Definition readHTML (l : lexer) : bytes * lexer :=
  let l0 := tokenBegins l in
  let '(l1, out) := readHTML_loop (rest l0) l0 [] in
  (rev out, l1).

Definition isPotentiallyLong (l : lexer) (t : tok) : bool :=
  (tok_eqb t T_ELSE && (cur l =? 105) && (peekChar l =? 102)) ||
  (tok_eqb t T_BREAK && (cur l =? 73) && (peekChar l =? 102)) ||
  (tok_eqb t T_CONTINUE && (cur l =? 73) && (peekChar l =? 102)).

Fixpoint readDirective_loop (r : bytes) (l : lexer) (kw : bytes) (t : tok) : lexer * bytes * tok :=
  match r with
  | [] => (l, kw, t)
  | _ :: r' =>
    if negb (isLetterWord (cur l)) then (l, kw, t) else
    let kw' := kw ++ [cur l] in
    let t' := lookupDirective kw' in
    let l' := readChar l in
    if negb (isPotentiallyLong l' t') && negb (tok_eqb t' T_ILLEGAL)
    then (l', kw', t')
    else readDirective_loop r' l' kw' t'
  end.

Definition readDirective (l : lexer) : lexer * bytes * tok :=
  let l0 := tokenBegins l in readDirective_loop (rest l0) l0 [] T_ILLEGAL.

(* Go's string(b) for a byte b is the UTF-8 encoding of the code point b *)
Definition string_of_byte (c : N) : bytes :=
  if c <? 128 then [c] else [192 + c / 64; 128 + c mod 64].

Definition illegalToken (l : lexer) : token * lexer :=
  let l' := tokenBegins l in
  (mkToken T_ILLEGAL (string_of_byte (cur l')) (startLine l') (startCol l') (startLine l') (startCol l'), l').

Definition inb (t : tok) (ts : list tok) : bool := existsb (tok_eqb t) ts.

Definition directiveToken (l : lexer) : token * lexer :=
  if negb (cur l =? 64) then illegalToken l else
  let '(l1, kw, t) := readDirective l in
  if tok_eqb t T_ILLEGAL then illegalToken l1 else
  let hasOpt := inb t tokens_with_optional_parens && (cur l1 =? 40) in
  let hasNo := inb t tokens_without_parens in
  let dir := hasOpt || negb hasNo in
  let l2 := setModes l1 (negb dir) dir in
  (newToken l2 t kw, l2).

Fixpoint readIdent_loop (r : bytes) (l : lexer) (acc : bytes) : lexer * bytes :=
  match r with
  | [] => (l, acc)
  | _ :: r' =>
    if isIdent (cur l) || isNumber (cur l)
    then readIdent_loop r' (readChar l) (cur l :: acc)
    else (l, acc)
  end.

Definition readIdentifier (l : lexer) : bytes * lexer :=
  let l0 := tokenBegins l in
  let '(l1, acc) := readIdent_loop (rest l0) l0 [] in (rev acc, l1).

Fixpoint readNumber_loop (r : bytes) (l : lexer) (acc : bytes) (isInt : bool) : lexer * bytes * bool :=
  match r with
  | [] => (l, acc, isInt)
  | _ :: r' =>
    if isNumber (cur l) || (cur l =? 46) then
      if (cur l =? 46) && negb (isNumber (peekChar l)) then (l, acc, isInt)
      else readNumber_loop r' (readChar l) (cur l :: acc) (if cur l =? 46 then false else isInt)
    else (l, acc, isInt)
  end.

Definition readNumber (l : lexer) : bytes * bool * lexer :=
  let l0 := tokenBegins l in
  let '(l1, acc, isInt) := readNumber_loop (rest l0) l0 [] true in (rev acc, isInt, l1).

(* the scanning loop of readString; acc is the reversed slice input[pos:l.pos] *)
Fixpoint readString_loop (r : bytes) (l : lexer) (quote : N) (acc : bytes) : lexer * bytes :=
  match r with
  | [] => (l, acc)
  | _ :: r' =>
    if cur l =? 0 then (l, acc) else
    let prevc := cur l in
    let l' := readChar l in
    if (cur l' =? quote) && negb (prevc =? 92) then (l', prevc :: acc)
    else readString_loop r' l' quote (prevc :: acc)
  end.

(* readString: (text, terminated, lexer) *)
Definition readString (l : lexer) : bytes * bool * lexer :=
  let quote := cur l in
  let l0 := readChar (tokenBegins l) in
  if cur l0 =? quote then ([], true, readChar l0) else
  let '(l1, acc) := readString_loop (rest l0) l0 quote [] in
  let terminated := cur l1 =? quote in
  let l2 := if terminated then readChar l1 else l1 in
  (replace_all [92; quote] [quote] (rev acc), terminated, l2).

Fixpoint skipComment_loop (r : bytes) (l : lexer) : lexer :=
  match r with
  | [] => l
  | _ :: r' =>
    if (cur l =? 0) || prefixb [45; 45; 125; 125] (rest l) then l
    else skipComment_loop r' (readChar l)
  end.

(* skipComment: (terminated, lexer) *)
Definition skipComment (l : lexer) : bool * lexer :=
  let l1 := skipComment_loop (rest l) l in
  let l2 := setModes l1 true (isDirective l1) in
  if cur l2 =? 0 then (false, l2) else (true, readN 4 l2).

Definition bracesToken (l : lexer) (t : tok) (lit : bytes) : token * lexer :=
  let l0 := setModes l (negb (tok_eqb t T_LBRACES)) (isDirective l) in
  fixedToken l0 2 t lit.

Definition simpleLookup (c : N) : option tok :=
  (fix go (m : list (N * tok)) := match m with
     | [] => None
     | (k, t) :: m' => if c =? k then Some t else go m'
     end) simple_tokens.

Definition embeddedCodeToken (l : lexer) : token * lexer :=
  let c := cur l in
  match simpleLookup c with
  | Some t => fixedToken l 1 t [c]
  | None =>
    if c =? 123 then
      fixedToken (setCounts l (parenCount l) (braceCount l + 1)%Z) 1 T_LBRACE [123]
    else if c =? 125 then
      fixedToken (setCounts l (parenCount l) (braceCount l - 1)%Z) 1 T_RBRACE [125]
    else if c =? 40 then
      let l1 := if isDirective l then setCounts l (parenCount l + 1)%Z (braceCount l) else l in
      fixedToken l1 1 T_LPAREN [40]
    else if c =? 41 then
      let l1 := if isDirective l then setCounts l (parenCount l - 1)%Z (braceCount l) else l in
      let l2 := if isDirective l1 && (parenCount l1 =? 0)%Z then setModes l1 true false else l1 in
      fixedToken l2 1 T_RPAREN [41]
    else if (c =? 34) || (c =? 39) then
      let '(s, terminated, l1) := readString l in
      (newToken l1 (if terminated then T_STR else T_ILLEGAL) s, l1)
    else if c =? 60 then
      if peekChar l =? 61 then fixedToken l 2 T_LTHAN_EQ [60; 61] else fixedToken l 1 T_LTHAN [60]
    else if c =? 62 then
      if peekChar l =? 61 then fixedToken l 2 T_GTHAN_EQ [62; 61] else fixedToken l 1 T_GTHAN [62]
    else if c =? 33 then
      if peekChar l =? 61 then fixedToken l 2 T_NOT_EQ [33; 61] else fixedToken l 1 T_NOT [33]
    else if c =? 45 then
      if peekChar l =? 45 then fixedToken l 2 T_DEC [45; 45] else fixedToken l 1 T_SUB [45]
    else if c =? 43 then
      if peekChar l =? 43 then fixedToken l 2 T_INC [43; 43] else fixedToken l 1 T_ADD [43]
    else if c =? 61 then
      if peekChar l =? 61 then fixedToken l 2 T_EQ [61; 61] else fixedToken l 1 T_ASSIGN [61]
    else if isIdent c then
      let '(id, l1) := readIdentifier l in (newToken l1 (lookupIdent id) id, l1)
    else if isNumber c then
      let '(num, isInt, l1) := readNumber l in
      (newToken l1 (if isInt then T_INT else T_FLOAT) num, l1)
    else illegalToken l
  end.

(* NextToken; fuel only bounds the recursion after comments. None = out of fuel. *)
Fixpoint nextToken (fuel : nat) (l : lexer) : option (token * lexer) :=
  match fuel with
  | O => None
  | S fuel' =>
    let l1 := if isHTML l then l else skipWhitespace l in
    if cur l1 =? 0 then
      let l2 := tokenBegins l1 in Some (newToken l2 T_EOF [], l2)
    else if (cur l1 =? 123) && (peekChar l1 =? 123) then
      let '(t, l2) := bracesToken l1 T_LBRACES [123; 123] in
      if (cur l2 =? 45) && (peekChar l2 =? 45) then
        let '(terminated, l3) := skipComment l2 in
        if terminated then nextToken fuel' l3
        else Some (newToken l3 T_ILLEGAL [123; 123; 45; 45], l3)
      else Some (t, l2)
    else if negb (isHTML l1) && (cur l1 =? 125) && (peekChar l1 =? 125) && (braceCount l1 =? 0)%Z then
      Some (bracesToken l1 T_RBRACES [125; 125])
    else if negb (isHTML l1) then Some (embeddedCodeToken l1)
    else if fst (isDirectiveToken l1) then Some (directiveToken l1)
    else let '(s, l2) := readHTML l1 in Some (newToken l2 T_HTML s, l2)
  end.

Definition nextTok (l : lexer) : option (token * lexer) :=
  nextToken (S (length (rest l))) l.

Definition token_eqb (a b : token) : bool :=
  tok_eqb (ttype a) (ttype b) && bytes_eqb (tlit a) (tlit b) &&
  Nat.eqb (tsl a) (tsl b) && Nat.eqb (tsc a) (tsc b) && Nat.eqb (tel a) (tel b) && Nat.eqb (tec a) (tec b).

(* The token stream up to and including the first EOF, or up to an ILLEGAL token that the
   lexer repeats (illegalToken does not consume: the same token comes back forever).
   None: out of fuel (excluded by lex_total). *)
Fixpoint lex_loop (fuel : nat) (l : lexer) (prev : option token) : option (list token) :=
  match fuel with
  | O => None
  | S fuel' =>
    match nextTok l with
    | None => None
    | Some (t, l') =>
      if tok_eqb (ttype t) T_EOF then Some [t]
      else if tok_eqb (ttype t) T_ILLEGAL &&
              match prev with Some p => token_eqb p t | None => false end
      then Some []
      else match lex_loop fuel' l' (Some t) with
           | Some ts => Some (t :: ts)
           | None => None
           end
    end
  end.

Definition lex_all (input : bytes) : option (list token) :=
  lex_loop (List.length input + 3) (newLexer input) None.
