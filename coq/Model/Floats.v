(* IEEE-754 binary64 through Flocq (specification-grade, executable).
   Go's float64 operations used by the evaluator, decimal literal -> float,
   float -> text on the class where the exact decimal expansion is provably the
   shortest round-trip form (<= 15 significant digits); None = Unmodelled. *)
From Coq Require Import String.
From Flocq Require Import Core BinarySingleNaN.
From TW Require Import Bytes.
Open Scope Z_scope.

Definition f64 := binary_float 53 1024.
#[global] Instance p53 : Prec_gt_0 53 := eq_refl _.
#[global] Instance p53e : Prec_lt_emax 53 1024 := eq_refl _.

Definition f_ofZ (z : Z) : f64 := binary_normalize 53 1024 _ _ mode_NE z 0 false.
Definition f_add (a b : f64) : f64 := Bplus mode_NE a b.
Definition f_sub (a b : f64) : f64 := Bminus mode_NE a b.
Definition f_mul (a b : f64) : f64 := Bmult mode_NE a b.
Definition f_div (a b : f64) : f64 := Bdiv mode_NE a b.
Definition f_neg (a : f64) : f64 := Bopp a.

Definition f_eqb (a b : f64) : bool := Beqb a b.
Definition f_ltb (a b : f64) : bool := Bltb a b.
Definition f_leb (a b : f64) : bool := Bleb a b.
Definition f_is_zero (a : f64) : bool := match a with B754_zero _ => true | _ => false end.
Definition f_one : f64 := f_ofZ 1.

Definition min_int64 : Z := - 2 ^ 63.
Definition max_int64z : Z := 2 ^ 63 - 1.

(* Go int64(f) on amd64: truncation; out of range, infinities and NaN give MinInt64 *)
Definition f_to_int (a : f64) : Z :=
  match a with
  | B754_nan | B754_infinity _ => min_int64
  | _ => let z := Btrunc a in
         if (min_int64 <=? z) && (z <=? max_int64z) then z else min_int64
  end.

Definition f_ceil (a : f64) : f64 := Bnearbyint mode_UP a.
Definition f_floor (a : f64) : f64 := Bnearbyint mode_DN a.
Definition f_round (a : f64) : f64 := Bnearbyint mode_NA a.

(* decimal literal "ddd.ddd": exact when the digits fit 2^53 and the scale fits 10^22 *)
Fixpoint decz (acc : Z) (s : bytes) : Z :=
  match s with
  | [] => acc
  | c :: s' => decz (acc * 10 + Z.of_N (c - 48)%N) s'
  end.

Fixpoint split_dot (s acc : bytes) : bytes * bytes :=
  match s with
  | [] => (rev acc, [])
  | c :: s' => if (c =? 46)%N then (rev acc, s') else split_dot s' (c :: acc)
  end.

Definition f_of_lit (lit : bytes) : option f64 :=
  let '(ip, fp) := split_dot lit [] in
  let m := decz 0 (ip ++ fp) in
  let k := Z.of_nat (List.length fp) in
  if (m <? 2 ^ 53) && (k <=? 22)
  then Some (f_div (f_ofZ m) (f_ofZ (10 ^ k)))
  else None.

(* from the 64-bit pattern (data supplied by the harness) *)
Definition f_of_bits (b : Z) : f64 :=
  let s := (2 ^ 63 <=? b) in
  let e := (b / 2 ^ 52) mod 2 ^ 11 in
  let m := b mod 2 ^ 52 in
  if e =? 2047 then (if m =? 0 then B754_infinity s else B754_nan)
  else if e =? 0 then binary_normalize 53 1024 _ _ mode_NE (if s then - m else m) (-1074) s
  else binary_normalize 53 1024 _ _ mode_NE (if s then - (m + 2 ^ 52) else (m + 2 ^ 52)) (e - 1075) s.

Definition f_to_bits (a : f64) : Z :=
  match a with
  | B754_zero s => if s then 2 ^ 63 else 0
  | B754_infinity s => (if s then 2 ^ 63 else 0) + 2047 * 2 ^ 52
  | B754_nan => 2047 * 2 ^ 52 + 2 ^ 51
  | B754_finite s m e _ =>
    let sb := if s then 2 ^ 63 else 0 in
    if Zpos m <? 2 ^ 52 then sb + Zpos m   (* subnormal: e = -1074 *)
    else sb + (e + 1075) * 2 ^ 52 + (Zpos m - 2 ^ 52)
  end.

(* number of decimal digits of a positive integer *)
Definition ndigits (z : Z) : nat := List.length (Z_to_dec z).

Definition pad_left (n : nat) (s : bytes) : bytes :=
  repeat 48%N (n - List.length s) ++ s.

(* remove factors of two: m * 2^e with e < 0 -> (m', k) with value m' / 2^k, m' odd or k = 0 *)
Fixpoint reduce2 (fuel : nat) (m : Z) (k : Z) : Z * Z :=
  match fuel with
  | O => (m, k)
  | S f => if (0 <? k) && Z.even m then reduce2 f (m / 2) (k - 1) else (m, k)
  end.

(* Float.String(): "%.1f" when integral, else strconv.FormatFloat(f, 'f', -1, 64) *)
Definition f_string (a : f64) : option bytes :=
  match a with
  | B754_zero s => Some (if s then bs "-0.0" else bs "0.0")
  | B754_infinity s => Some (if s then bs "-Inf" else bs "+Inf")
  | B754_nan => Some (bs "NaN")
  | B754_finite s m e _ =>
    let sign := if s then [45%N] else [] in
    if 0 <=? e then
      let v := Zpos m * 2 ^ e in
      if v <? 2 ^ 62 then Some (sign ++ Z_to_dec v ++ bs ".0") else None
    else
      let '(m', k) := reduce2 1100 (Zpos m) (- e) in
      if k =? 0 then
        if m' <? 2 ^ 62 then Some (sign ++ Z_to_dec m' ++ bs ".0") else None
      else
        let ip := m' / 2 ^ k in
        let fr := (m' mod 2 ^ k) * 5 ^ k in
        let frs := pad_left (Z.to_nat k) (Z_to_dec fr) in
        let sig := if ip =? 0 then ndigits fr else (ndigits ip + Z.to_nat k)%nat in
        if Nat.leb sig 15 then Some (sign ++ Z_to_dec ip ++ [46%N] ++ frs) else None
  end.

(* utils.FloatToStr = FormatFloat(f, 'f', -1, 64): like f_string but integral values
   print without ".0" and zero prints "0" / "-0" *)
Definition f_format (a : f64) : option bytes :=
  match a with
  | B754_zero s => Some (if s then bs "-0" else bs "0")
  | B754_infinity s => Some (if s then bs "-Inf" else bs "+Inf")
  | B754_nan => Some (bs "NaN")
  | B754_finite s m e _ =>
    let sign := if s then [45%N] else [] in
    if 0 <=? e then
      let v := Zpos m * 2 ^ e in
      if v <? 10 ^ 15 then Some (sign ++ Z_to_dec v) else None
    else
      let '(m', k) := reduce2 1100 (Zpos m) (- e) in
      if k =? 0 then
        if m' <? 10 ^ 15 then Some (sign ++ Z_to_dec m') else None
      else
        let ip := m' / 2 ^ k in
        let fr := (m' mod 2 ^ k) * 5 ^ k in
        let frs := pad_left (Z.to_nat k) (Z_to_dec fr) in
        let sig := if ip =? 0 then ndigits fr else (ndigits ip + Z.to_nat k)%nat in
        if Nat.leb sig 15 then Some (sign ++ Z_to_dec ip ++ [46%N] ++ frs) else None
  end.
