(* textwire.EvaluateString: lex, parse, bind the data, evaluate, print. *)
From TW Require Export Parser Eval.

Definition evaluate_string (cx : ctx) (src : bytes) (data : list (bytes * goval)) : render_result :=
  match parse_source src with
  | ParsedOk p => render_program cx p data
  | ParseErrors ((ln, msg) :: _) => RenderErr ln msg
  | ParseErrors [] => RenderPanic
  | ParsePanic => RenderPanic
  | ParseOutOfFuel => RenderOutOfFuel
  end.
