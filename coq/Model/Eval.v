(* Model of evaluator/evaluator.go (after the fix: commits recorded in
   known_findings.json), object/env.go and the data binding of EnvFromMap.
   Errors are outcomes (Fail line msg); Panic marks every place where the Go
   code would panic; OutOfFuel comes only from the explicit fuel. *)
From Coq Require Import String.
From TW Require Export Ast Builtins.
Open Scope N_scope.

Inductive outcome (A : Type) :=
| Ok (a : A)
| Fail (ln : nat) (msg : bytes)
| Panic
| OutOfFuel
| Unmodelled.
Arguments Ok {A} a.
Arguments Fail {A} ln msg.
Arguments Panic {A}.
Arguments OutOfFuel {A}.
Arguments Unmodelled {A}.

Notation "'let!' x := r 'in' k" :=
  (match r with
   | Ok x => k
   | Fail ln msg => Fail ln msg
   | Panic => Panic
   | OutOfFuel => OutOfFuel
   | Unmodelled => Unmodelled
   end)
  (at level 200, x pattern, r at level 100, k at level 200).

(* ---------- object/env.go *)
Definition frame := list (bytes * value).
Definition env := list frame.      (* innermost first *)

Fixpoint env_get (e : env) (k : bytes) : option value :=
  match e with
  | [] => None
  | f :: e' => match alookup k f with Some v => Some v | None => env_get e' k end
  end.

Definition str_loop : bytes := bs "loop".

(* Env.Set: inr msg on error *)
Definition env_set (e : env) (k : bytes) (v : value) : env + bytes :=
  if bytes_eqb k str_loop then inr (fmt ErrLoopVariableIsReserved []) else
  match env_get e k with
  | Some old =>
    if negb (same_type old v)
    then inr (fmt ErrVariableTypeMismatch [k; type_name old; type_name v])
    else inl (match e with f :: e' => aset k v f :: e' | [] => [[(k, v)]] end)
  | None => inl (match e with f :: e' => aset k v f :: e' | [] => [[(k, v)]] end)
  end.

Definition env_set_loop (e : env) (index : nat) (len : nat) : env :=
  let o := VObj [(bs "index", VInt (Z.of_nat index));
                 (bs "first", VBool (Nat.eqb index 0));
                 (bs "last", VBool (Nat.eqb (S index) len));
                 (bs "iter", VInt (Z.of_nat (S index)))] in
  match e with f :: e' => aset str_loop o f :: e' | [] => [[(str_loop, o)]] end.

(* ---------- custom functions: the five-function library of harness/tree.go *)
Inductive fnid := F_id | F_const | F_const2 | F_echo | F_args | F_nargs | F_not | F_revip.
(* F_revip: an array function that reverses the slice it received in place and returns it *)

Record ctx := mkCtx {
  custom : list (bytes * bytes * fnid)    (* receiver type name, function name, function *)
}.

Fixpoint canon (v : value) : option bytes :=
  match v with
  | VNil => Some (bs "nil")
  | VInt z => Some (bs "i64(" ++ Z_to_dec z ++ bs ")")
  | VFloat f => match f_format f with Some s => Some (bs "f64(" ++ s ++ bs ")") | None => None end
  | VStr s => Some (bs "str(" ++ s ++ bs ")")
  | VBool b => Some (if b then bs "bool(1)" else bs "bool(0)")
  | VArr l =>
    match all_some (map canon l) with
    | Some ss => Some (bs "arr[" ++ join [44] ss ++ bs "]")
    | None => None
    end
  | VObj m =>
    let strs := map (fun kv => match kv with (k, x) => (k, canon x) end) m in
    match all_some (map (fun ks => match snd ks with
                                   | Some s => Some (fst ks ++ [58] ++ s)
                                   | None => None end) (asort strs)) with
    | Some ss => Some (bs "map{" ++ join [44] ss ++ bs "}")
    | None => None
    end
  | _ => None
  end.

Definition canon_all (args : list value) : option bytes :=
  match all_some (map canon args) with Some ss => Some (join [59] ss) | None => None end.

Definition lookup_custom (c : ctx) (ty name : bytes) : option fnid :=
  (fix go (l : list (bytes * bytes * fnid)) :=
     match l with
     | [] => None
     | (t, n, f) :: l' => if bytes_eqb t ty && bytes_eqb n name then Some f else go l'
     end) (custom c).

(* the call of a registered custom function; None = outside the library / unmodelled text *)
Definition call_custom (f : fnid) (recv : value) (args : list value) : option value :=
  match recv with
  | VStr _ =>
    match f with
    | F_id => match value_string recv with Some s => Some (VStr s) | None => None end
    | F_const => Some (VStr (bs "K"))
    | F_const2 => Some (VStr (bs "K2"))
    | F_echo => match canon recv, canon_all args with
                | Some a, Some b => Some (VStr (a ++ bs "<-" ++ b)) | _, _ => None end
    | _ => None
    end
  | VArr l =>
    match f with
    | F_id => Some (VArr l)
    | F_args => Some (VArr args)
    | F_echo => match canon recv, canon_all args with
                | Some a, Some b => Some (VArr [VStr (a ++ bs "<-" ++ b)]) | _, _ => None end
    | F_const => Some (VArr [VInt 1; VStr (bs "x")])
    | F_const2 => Some (VArr [VInt 2])
    | F_revip => Some (VArr (rev l))
    | _ => None
    end
  | VInt z =>
    match f with
    | F_id => Some (VInt z)
    | F_const => Some (VInt 42)
    | F_const2 => Some (VInt 43)
    | F_nargs => Some (VInt (Z.of_nat (List.length args)))
    | _ => None
    end
  | VFloat x =>
    match f with
    | F_id => Some (VFloat x)
    | F_const => Some (VFloat (f_div (f_ofZ 3) (f_ofZ 2)))
    | F_const2 => Some (VFloat (f_div (f_ofZ 5) (f_ofZ 2)))
    | F_nargs => Some (VFloat (f_ofZ (Z.of_nat (List.length args))))
    | _ => None
    end
  | VBool b =>
    match f with
    | F_id => Some (VBool b)
    | F_not => Some (VBool (negb b))
    | F_const => Some (VBool true)
    | F_const2 => Some (VBool false)
    | _ => None
    end
  | _ => None
  end.

(* ---------- operators *)

Definition bool_v (b : bool) : value := VBool b.

Definition eval_int_infix (ln : nat) (op : bytes) (l r : Z) : outcome value :=
  let is := bytes_eqb op in
  if is (bs "+") then Ok (VInt (wrap64 (l + r)))
  else if is (bs "-") then Ok (VInt (wrap64 (l - r)))
  else if is (bs "*") then Ok (VInt (wrap64 (l * r)))
  else if is (bs "/") then
    if (r =? 0)%Z then Fail ln (fmt ErrDivisionByZero []) else Ok (VInt (wrap64 (Z.quot l r)))
  else if is (bs "%") then
    if (r =? 0)%Z then Fail ln (fmt ErrDivisionByZero []) else Ok (VInt (wrap64 (Z.rem l r)))
  else if is (bs "==") then Ok (bool_v (l =? r)%Z)
  else if is (bs "!=") then Ok (bool_v (negb (l =? r)%Z))
  else if is (bs ">") then Ok (bool_v (r <? l)%Z)
  else if is (bs "<") then Ok (bool_v (l <? r)%Z)
  else if is (bs ">=") then Ok (bool_v (r <=? l)%Z)
  else if is (bs "<=") then Ok (bool_v (l <=? r)%Z)
  else Fail ln (fmt ErrUnknownTypeForOperator [bs "INTEGER"; op]).

Definition eval_float_infix (ln : nat) (op : bytes) (l r : f64) : outcome value :=
  let is := bytes_eqb op in
  if is (bs "+") then Ok (VFloat (f_add l r))
  else if is (bs "-") then Ok (VFloat (f_sub l r))
  else if is (bs "*") then Ok (VFloat (f_mul l r))
  else if is (bs "/") then Ok (VFloat (f_div l r))
  else if is (bs "==") then Ok (bool_v (f_eqb l r))
  else if is (bs "!=") then Ok (bool_v (negb (f_eqb l r)))
  else if is (bs ">") then Ok (bool_v (f_ltb r l))
  else if is (bs "<") then Ok (bool_v (f_ltb l r))
  else if is (bs ">=") then Ok (bool_v (f_leb r l))
  else if is (bs "<=") then Ok (bool_v (f_leb l r))
  else Fail ln (fmt ErrUnknownTypeForOperator [bs "FLOAT"; op]).

Definition eval_str_infix (ln : nat) (op : bytes) (l r : bytes) : outcome value :=
  let is := bytes_eqb op in
  if is (bs "==") then Ok (bool_v (bytes_eqb l r))
  else if is (bs "!=") then Ok (bool_v (negb (bytes_eqb l r)))
  else if is (bs "+") then Ok (VStr (l ++ r))
  else Fail ln (fmt ErrUnknownTypeForOperator [bs "STRING"; op]).

(* evalInfixOperatorExp; ln = line of the LEFT operand node *)
Definition eval_infix_op (ln : nat) (op : bytes) (l r : value) : outcome value :=
  if negb (same_type l r) then Fail ln (fmt ErrTypeMismatch [type_name l; op; type_name r]) else
  match l, r with
  | VInt a, VInt b => eval_int_infix ln op a b
  | VFloat a, VFloat b => eval_float_infix ln op a b
  | VStr a, VStr b => eval_str_infix ln op a b
  | _, _ => Fail ln (fmt ErrUnknownTypeForOperator [type_name l; op])
  end.

Definition eval_prefix_op (ln : nat) (op : bytes) (r : value) : outcome value :=
  if bytes_eqb op (bs "-") then
    match r with
    | VInt z => Ok (VInt (wrap64 (- z)))
    | VFloat f => Ok (VFloat (f_neg f))
    | _ => Fail ln (fmt ErrPrefixOperatorIsWrong [bs "-"; type_name r])
    end
  else if bytes_eqb op (bs "!") then
    match r with
    | VBool b => Ok (VBool (negb b))
    | VNil => Ok (VBool true)
    | _ => Fail ln (fmt ErrPrefixOperatorIsWrong [bs "!"; type_name r])
    end
  else Fail ln (fmt ErrUnknownOperator [op; type_name r]).

(* x-- on a float: Go decrements the integer part of the shortest decimal text; on the
   class where that text is the exact value this equals IEEE subtraction *)
Definition float_dec (f : f64) : outcome value :=
  match f_format f with
  | Some _ => Ok (VFloat (f_sub f f_one))
  | None => Unmodelled
  end.

Definition eval_postfix_op (ln : nat) (op : bytes) (l : value) : outcome value :=
  if bytes_eqb op (bs "++") then
    match l with
    | VInt z => Ok (VInt (wrap64 (z + 1)))
    | VFloat f => Ok (VFloat (f_add f f_one))
    | _ => Fail ln (fmt ErrUnknownOperator [type_name l; op])
    end
  else if bytes_eqb op (bs "--") then
    match l with
    | VInt z => Ok (VInt (wrap64 (z - 1)))
    | VFloat f => float_dec f
    | _ => Fail ln (fmt ErrUnknownOperator [type_name l; op])
    end
  else Fail ln (fmt ErrUnknownOperator [type_name l; op]).

(* strings.ToUpper(idx[:1]) + idx[1:] *)
Definition upper_first (idx : bytes) : bytes :=
  match idx with
  | [] => []
  | c :: r => if c <? 128 then upper_byte c :: r else [239; 191; 189] ++ r
  end.

(* evalObjectIndexExp *)
Definition obj_index (ln : nat) (m : list (bytes * value)) (idx : bytes) : outcome value :=
  match alookup idx m with
  | Some v => Ok v
  | None =>
    match idx with
    | [] => Fail ln (fmt ErrPropertyNotFound [idx; bs "OBJECT"])
    | _ =>
      match alookup (upper_first idx) m with
      | Some v => Ok v
      | None => Fail ln (fmt ErrPropertyNotFound [idx; bs "OBJECT"])
      end
    end
  end.

Definition expr_line (e : expr) : option nat :=
  match e with
  | ENull => None
  | EIdent ln _ | EInt ln _ | EFloat ln _ | EStr ln _ | ENil ln | EBool ln _ | EArr ln _
  | EObj ln _ | EPrefix ln _ _ | EInfix ln _ _ _ | EPostfix ln _ _ | ETernary ln _ _ _
  | EIndex ln _ _ | EDot ln _ _ | ECall ln _ _ _ => Some ln
  end.


Fixpoint eval_expr (cx : ctx) (fuel : nat) (en : env) (e : expr) {struct fuel} : outcome value :=
  match fuel with
  | O => OutOfFuel
  | S f =>
    match e with
    | ENull => Panic
    | EIdent ln name =>
      match env_get en name with
      | Some v => Ok v
      | None => Fail ln (fmt ErrIdentifierNotFound [name])
      end
    | EInt _ v => Ok (VInt v)
    | EFloat _ lit => match f_of_lit lit with Some x => Ok (VFloat x) | None => Unmodelled end
    | EStr _ s => Ok (VStr (eval_string_lit s))
    | ENil _ => Ok VNil
    | EBool _ b => Ok (VBool b)
    | EArr _ els => let! vs := eval_exprs cx f en els in Ok (VArr vs)
    | EObj _ pairs =>
      let! kvs := eval_pairs cx f en (asort pairs) in
      Ok (VObj (fold_left (fun (acc : list (bytes * value)) kv => aset (fst kv) (snd kv) acc) kvs []))
    | EPrefix ln op r =>
      let! rv := eval_expr cx f en r in eval_prefix_op ln op rv
    | ETernary _ c a b =>
      let! cv := eval_expr cx f en c in
      if truthy cv then eval_expr cx f en a else eval_expr cx f en b
    | EInfix _ op l r =>
      let! lv := eval_expr cx f en l in
      let! rv := eval_expr cx f en r in
      match expr_line l with
      | Some lln => eval_infix_op lln op lv rv
      | None => Panic
      end
    | EPostfix ln op l =>
      let! lv := eval_expr cx f en l in eval_postfix_op ln op lv
    | EIndex ln l i =>
      let! lv := eval_expr cx f en l in
      let! iv := eval_expr cx f en i in
      match lv, iv with
      | VArr els, VInt idx =>
        if (idx <? 0)%Z || (Z.of_nat (List.length els) <=? idx)%Z then Ok VNil
        else Ok (nth (Z.to_nat idx) els VNil)
      | VObj m, VStr k =>
        match expr_line i with Some iln => obj_index iln m k | None => Panic end
      | _, _ => Fail ln (fmt ErrIndexNotSupported [type_name lv])
      end
    | EDot ln l key =>
      let! lv := eval_expr cx f en l in
      match key with
      | EIdent _ k =>
        match lv with
        | VObj m => obj_index ln m k
        | _ => Fail ln (fmt ErrDotOperatorNotSupported [type_name lv])
        end
      | _ => Panic
      end
    | ECall ln recv fname args =>
      let! rv := eval_expr cx f en recv in
      if negb (has_func_table rv) then Fail ln (fmt ErrNoFuncForThisType [fname; type_name rv]) else
      let! avs := eval_exprs cx f en args in
      match call_builtin fname rv avs with
      | Some (BOk v) => Ok v
      | Some (BErr msg) => Fail ln msg
      | Some BUnmodelled => Unmodelled
      | None =>
        match lookup_custom cx (type_name rv) fname with
        | Some fn => match call_custom fn rv avs with Some v => Ok v | None => Unmodelled end
        | None => Fail ln (fmt ErrNoFuncForThisType [fname; type_name rv])
        end
      end
    end
  end

with eval_exprs (cx : ctx) (fuel : nat) (en : env) (es : list expr) {struct fuel} : outcome (list value) :=
  match fuel with
  | O => OutOfFuel
  | S f =>
    match es with
    | [] => Ok []
    | e :: es' =>
      let! v := eval_expr cx f en e in
      let! vs := eval_exprs cx f en es' in
      Ok (v :: vs)
    end
  end

with eval_pairs (cx : ctx) (fuel : nat) (en : env) (ps : list (bytes * expr)) {struct fuel}
     : outcome (list (bytes * value)) :=
  match fuel with
  | O => OutOfFuel
  | S f =>
    match ps with
    | [] => Ok []
    | (k, e) :: ps' =>
      let! v := eval_expr cx f en e in
      let! vs := eval_pairs cx f en ps' in
      Ok ((k, v) :: vs)
    end
  end.

(* out.WriteString(obj.String()) *)
Definition str_of (v : value) : outcome bytes :=
  match value_string v with Some s => Ok s | None => Unmodelled end.

(* component arguments, in key order: each value is evaluated at the place of use (en) and bound
   in the component's own scope chain (ne); a binding that Env.Set refuses - the name is visible
   with another type, or is the reserved name loop - fails the render at the component's line *)
Fixpoint bind_args (cx : ctx) (f : nat) (ln : nat) (en : env) (ps : list (bytes * expr)) (ne : env)
  {struct ps} : outcome env :=
  match ps with
  | [] => Ok ne
  | (k, x) :: ps' =>
    let! v := eval_expr cx f en x in
    match env_set ne k v with
    | inl ne' => bind_args cx f ln en ps' ne'
    | inr msg => Fail ln msg
    end
  end.

(* evalDumpStmt: every argument evaluated and dumped at indentation 0.  The dump of an ERROR object
   (an argument that fails: its box shows the file and the line) is not modelled. *)
Fixpoint dump_args (ev : expr -> outcome value) (args : list expr) : outcome (list bytes) :=
  match args with
  | [] => Ok []
  | a :: r =>
    match ev a with
    | Ok v => match dump_value 0 v with
              | Some d => let! ds := dump_args ev r in Ok (d :: ds)
              | None => Unmodelled
              end
    | Fail _ _ => Unmodelled
    | Panic => Panic
    | OutOfFuel => OutOfFuel
    | Unmodelled => Unmodelled
    end
  end.

(* Statements return the Go object and the environment chain as it is afterwards
   (only the innermost frame can have changed, see Proofs/Scopes.v). *)
Fixpoint eval_stmt (cx : ctx) (fuel : nat) (en : env) (s : stmt) {struct fuel} : outcome (value * env) :=
  match fuel with
  | O => OutOfFuel
  | S f =>
    match s with
    | SNull => Panic
    | SHtml _ lit => Ok (VHtml lit, en)
    | SExpr e => let! v := eval_expr cx f en e in Ok (v, en)
    | SAssign ln name e =>
      let! v := eval_expr cx f en e in
      match env_set en name v with
      | inl en' => Ok (VNil, en')
      | inr msg => Fail ln msg
      end
    | SIf _ c thn alts alt =>
      let! cv := eval_expr cx f en c in
      if truthy cv then
        let! r := eval_block cx f ([] :: en) thn [] in Ok (fst r, tl (snd r))
      else eval_alts cx f en alts alt
    | SFor ln init c post body alt =>
      let en0 := [] :: en in
      let! r0 := (match init with SNull => Ok (VNil, en0) | _ => eval_stmt cx f en0 init end) in
      let en1 := snd r0 in
      let! enter := (match c with
                     | ENull => Ok true
                     | _ => let! cv := eval_expr cx f en1 c in Ok (truthy cv)
                     end) in
      match enter, alt with
      | false, Some a => let! r := eval_block cx f en1 a [] in Ok (fst r, tl (snd r))
      | _, _ =>
        let! r := for_loop cx f ln init c post body en1 [] in
        Ok (VHtml (fst r), tl (snd r))
      end
    | SEach ln var arr body alt =>
      let en0 := [] :: en in
      let! av := eval_expr cx f en0 arr in
      match av with
      | VArr elems =>
        match elems, alt with
        | [], Some a => let! r := eval_block cx f en0 a [] in Ok (fst r, tl (snd r))
        | _, _ =>
          let! r := each_loop cx f ln var body (List.length elems) 0 elems en0 [] in
          Ok (VHtml (fst r), tl (snd r))
        end
      | _ => Fail ln (fmt ErrEachExpectsArray [type_name av])
      end
    | SUse ln name layout =>
      match layout with
      | None => Fail ln (fmt ErrUseStmtMustHaveProgram [])
      | Some (isLayout, hasUse, ss) =>
        if isLayout && hasUse then Fail ln (fmt ErrUseStmtNotAllowed []) else
        let! r := eval_program cx f en ss [] in
        Ok (VUse (VHtml (fst r)), snd r)
      end
    | SReserve _ _ _ ins =>
      match ins with
      | None => Ok (VNil, en)
      | Some (iln, arg, Some b) =>
        let! r := eval_block cx f en b [] in Ok (VReserve (fst r) None, snd r)
      | Some (iln, arg, None) =>
        match arg with
        | ENull => Fail iln (fmt ErrInsertMustHaveContent [])
        | _ => let! v := eval_expr cx f en arg in Ok (VReserve VNil (Some v), en)
        end
      end
    | SInsert _ _ _ _ => Ok (VNil, en)
    | SBreakIf _ c =>
      let! cv := eval_expr cx f en c in Ok (if truthy cv then VBreak else VNil, en)
    | SContinueIf _ c =>
      let! cv := eval_expr cx f en c in Ok (if truthy cv then VContinue else VNil, en)
    | SBreak => Ok (VBreak, en)
    | SContinue => Ok (VContinue, en)
    | SComponent ln _ name arg _ block =>
      match block with
      | None => Fail ln (fmt ErrComponentMustHaveBlock [eval_string_lit name])
      | Some ss =>
        let! en1 :=
          (match arg with
           | Some (EObj _ pairs) => bind_args cx f ln en (asort pairs) ([] :: en)
           | Some _ => Panic
           | None => Ok ([] :: en)
           end) in
        let! r := eval_program cx f en1 ss [] in
        Ok (VComponent (VHtml (fst r)), tl (snd r))
      end
    | SSlot _ _ body =>
      match body with
      | Some b => let! r := eval_block cx f en b [] in Ok (VSlot (fst r), snd r)
      | None => Ok (VSlot VNil, en)
      end
    | SDump _ args => let! ds := dump_args (eval_expr cx f en) args in Ok (VDump ds, en)
    end
  end

(* evalBlockStmt: acc holds the evaluated elements, newest first *)
with eval_block (cx : ctx) (fuel : nat) (en : env) (ss : list stmt) (acc : list value) {struct fuel}
     : outcome (value * env) :=
  match fuel with
  | O => OutOfFuel
  | S f =>
    match ss with
    | [] => Ok (VBlock (rev acc), en)
    | s :: ss' =>
      let! r := eval_stmt cx f en s in
      let v := fst r in
      if has_break v || has_continue v then Ok (VBlock (rev (v :: acc)), snd r)
      else eval_block cx f (snd r) ss' (v :: acc)
    end
  end

(* the @elseif chain and @else of evalIfStmt: conditions in the enclosing scope,
   bodies in the one child scope *)
with eval_alts (cx : ctx) (fuel : nat) (en : env) (alts : list (expr * list stmt)) (alt : option (list stmt))
     {struct fuel} : outcome (value * env) :=
  match fuel with
  | O => OutOfFuel
  | S f =>
    match alts with
    | (c, b) :: alts' =>
      let! cv := eval_expr cx f en c in
      if truthy cv then let! r := eval_block cx f ([] :: en) b [] in Ok (fst r, tl (snd r))
      else eval_alts cx f en alts' alt
    | [] =>
      match alt with
      | Some a => let! r := eval_block cx f ([] :: en) a [] in Ok (fst r, tl (snd r))
      | None => Ok (VNil, en)
      end
    end
  end

(* evalProgram: concatenated String() of the statements *)
with eval_program (cx : ctx) (fuel : nat) (en : env) (ss : list stmt) (out : bytes) {struct fuel}
     : outcome (bytes * env) :=
  match fuel with
  | O => OutOfFuel
  | S f =>
    match ss with
    | [] => Ok (out, en)
    | s :: ss' =>
      let! r := eval_stmt cx f en s in
      let! str := str_of (fst r) in
      eval_program cx f (snd r) ss' (out ++ str)
    end
  end

(* the loop of evalForStmt; en is the loop's own scope chain *)
with for_loop (cx : ctx) (fuel : nat) (ln : nat) (init : stmt) (c : expr) (post : stmt) (body : list stmt)
              (en : env) (out : bytes) {struct fuel} : outcome (bytes * env) :=
  match fuel with
  | O => OutOfFuel
  | S f =>
    let! go := (match c with
                | ENull => Ok true
                | _ => let! cv := eval_expr cx f en c in Ok (truthy cv)
                end) in
    if negb go then Ok (out, en) else
    let! r := eval_block cx f en body [] in
    let! str := str_of (fst r) in
    let out' := out ++ str in
    let en1 := snd r in
    if has_break (fst r) then Ok (out', en1) else
    match post with
    | SNull => for_loop cx f ln init c post body en1 out'
    | _ =>
      let! pr := eval_stmt cx f en1 post in
      let en2 := snd pr in
      match init, post with
      | SAssign _ name _, SExpr _ =>
        match env_set en2 name (fst pr) with
        | inl en3 => for_loop cx f ln init c post body en3 out'
        | inr msg => Fail ln msg
        end
      | _, _ => for_loop cx f ln init c post body en2 out'
      end
    end
  end

(* the loop of evalEachStmt *)
with each_loop (cx : ctx) (fuel : nat) (ln : nat) (var : bytes) (body : list stmt) (len i : nat)
               (elems : list value) (en : env) (out : bytes) {struct fuel} : outcome (bytes * env) :=
  match fuel with
  | O => OutOfFuel
  | S f =>
    match elems with
    | [] => Ok (out, en)
    | x :: elems' =>
      match env_set en var x with
      | inr msg => Fail ln msg
      | inl en1 =>
        let en2 := env_set_loop en1 i len in
        let! r := eval_block cx f en2 body [] in
        let! str := str_of (fst r) in
        if has_break (fst r) then Ok (out ++ str, snd r)
        else each_loop cx f ln var body len (S i) elems' (snd r) (out ++ str)
      end
    end
  end.


(* ---------- EnvFromMap *)
Inductive env_result :=
| EnvOk (e : env)
| EnvUnsupported                 (* fail.ErrUnsupportedType: line 0 *)
| EnvErr (msg : bytes).

Fixpoint env_from_sorted (data : list (bytes * goval)) (e : env) : env_result :=
  match data with
  | [] => EnvOk e
  | (k, g) :: data' =>
    match to_object g with
    | None => EnvUnsupported
    | Some v =>
      match env_set e k v with
      | inl e' => env_from_sorted data' e'
      | inr msg => EnvErr msg
      end
    end
  end.

Definition env_from_map (data : list (bytes * goval)) : env_result :=
  env_from_sorted (asort data) [[]].

(* ---------- textwire.EvaluateString *)
Inductive render_result :=
| RenderOk (out : bytes)
| RenderErr (ln : nat) (msg : bytes)
| RenderUnsupportedData
| RenderPanic
| RenderOutOfFuel
| RenderUnmodelled.

Definition eval_fuel : nat := 5000.

Definition render_program (cx : ctx) (p : program) (data : list (bytes * goval)) : render_result :=
  match env_from_map data with
  | EnvUnsupported => RenderUnsupportedData
  | EnvErr msg => RenderErr 0 msg
  | EnvOk en =>
    match eval_program cx eval_fuel en (p_stmts p) [] with
    | Ok r => RenderOk (fst r)
    | Fail ln msg => RenderErr ln msg
    | Panic => RenderPanic
    | OutOfFuel => RenderOutOfFuel
    | Unmodelled => RenderUnmodelled
    end
  end.

