(* The AST of package ast, reduced to what evaluation and error reporting use.
   Every node keeps [ln], the 1-based line its Line() method reports
   (Token.ErrorLine() = Pos.EndLine + 1). *)
From TW Require Export Bytes GenToken Lexer.

Inductive expr :=
| ENull                                            (* Go: nil Expression *)
| EIdent (ln : nat) (name : bytes)
| EInt (ln : nat) (v : Z)
| EFloat (ln : nat) (lit : bytes)                  (* Value = ParseFloat(lit) *)
| EStr (ln : nat) (v : bytes)
| ENil (ln : nat)
| EBool (ln : nat) (b : bool)
| EArr (ln : nat) (els : list expr)
| EObj (ln : nat) (pairs : list (bytes * expr))    (* Go map: unique keys, insertion order kept here *)
| EPrefix (ln : nat) (op : bytes) (r : expr)
| EInfix (ln : nat) (op : bytes) (l r : expr)
| EPostfix (ln : nat) (op : bytes) (l : expr)
| ETernary (ln : nat) (c a b : expr)
| EIndex (ln : nat) (l i : expr)
| EDot (ln : nat) (l : expr) (key : expr)
| ECall (ln : nat) (recv : expr) (fname : bytes) (args : list expr).

Inductive stmt :=
| SNull                                            (* Go: nil Statement *)
| SHtml (ln : nat) (lit : bytes)
| SExpr (e : expr)
| SAssign (ln : nat) (name : bytes) (v : expr)
| SIf (ln : nat) (c : expr) (cons : list stmt) (alts : list (expr * list stmt)) (alt : option (list stmt))
| SFor (ln : nat) (init : stmt) (c : expr) (post : stmt) (body : list stmt) (alt : option (list stmt))
| SEach (ln : nat) (var : bytes) (arr : expr) (body : list stmt) (alt : option (list stmt))
| SUse (ln : nat) (name : bytes) (layout : option (bool * bool * list stmt))
    (* Program attached by ApplyLayout: (IsLayout, HasUseStmt, Statements) *)
| SReserve (ln : nat) (rid : nat) (name : bytes) (ins : option (nat * expr * option (list stmt)))
    (* Insert attached by ApplyInserts: (insert line, Argument, Block) *)
| SInsert (ln : nat) (name : bytes) (arg : expr) (body : option (list stmt))
| SBreakIf (ln : nat) (c : expr)
| SContinueIf (ln : nat) (c : expr)
| SBreak
| SContinue
| SComponent (ln : nat) (cid : nat) (name : bytes) (arg : option expr)
             (slots : list (nat * bytes * list stmt)) (block : option (list stmt))
    (* block = the component program attached by ApplyComponent *)
| SSlot (ln : nat) (name : bytes) (body : option (list stmt))
| SDump (ln : nat) (args : list expr).

Record insert_rec := mkInsert {
  ins_ln : nat; ins_name : bytes; ins_arg : expr; ins_body : option (list stmt)
}.

Record program := mkProgram {
  p_stmts : list stmt;
  p_use : option (nat * bytes);                  (* UseStmt: line, Name.Value *)
  p_components : list (nat * nat * bytes * list (nat * bytes * list stmt));
                                                 (* cid, line, name, slots — in parse order *)
  p_reserves : list (bytes * nat);               (* Go map name -> statement (rid) *)
  p_inserts : list (bytes * insert_rec)          (* Go map name -> statement *)
}.
