(* the model's observation per case, in the harness's format *)
module E = Twmodel_ext
open Util

(* ---------- lex *)

let show_token (t : E.token) =
  Printf.sprintf "%d:%s:%d:%d:%d:%d"
    (int_of_nat (E.tok_index t.E.ttype))
    (hexb t.E.tlit) (int_of_nat t.E.tsl) (int_of_nat t.E.tsc) (int_of_nat t.E.tel) (int_of_nat t.E.tec)

let model_lex src =
  match E.lex_all (bytes_of_string src) with
  | None -> "OUTOFFUEL"
  | Some ts -> "LEX\t" ^ String.concat ";" (List.map show_token ts)

(* ---------- parse: the AST dump of harness/astdump.go *)

let ni n = string_of_int (int_of_nat n)
let sb l = string_of_bytes l

let rec dump_expr (e : E.expr) : string =
  match e with
  | E.ENull -> "null"
  | E.EIdent (ln, name) -> Printf.sprintf "(id %s %s)" (ni ln) (sb name)
  | E.EInt (ln, v) -> Printf.sprintf "(int %s %s)" (ni ln) (sb (E.z_to_dec v))
  | E.EFloat (ln, lit) -> Printf.sprintf "(float %s %s)" (ni ln) (hexb lit)
  | E.EStr (ln, v) -> Printf.sprintf "(str %s %s)" (ni ln) (hexb v)
  | E.ENil ln -> Printf.sprintf "(nil %s)" (ni ln)
  | E.EBool (ln, b) -> Printf.sprintf "(bool %s %d)" (ni ln) (if b then 1 else 0)
  | E.EArr (ln, els) ->
      "(arr " ^ ni ln ^ String.concat "" (List.map (fun x -> " " ^ dump_expr x) els) ^ ")"
  | E.EObj (ln, pairs) ->
      let ps = List.map (fun (k, v) -> (sb k, v)) pairs in
      let ps = List.sort (fun (a, _) (b, _) -> compare a b) ps in
      "(obj " ^ ni ln
      ^ String.concat "" (List.map (fun (k, v) -> " (" ^ hex k ^ " " ^ dump_expr v ^ ")") ps)
      ^ ")"
  | E.EPrefix (ln, op, r) -> Printf.sprintf "(pre %s %s %s)" (ni ln) (sb op) (dump_expr r)
  | E.EInfix (ln, op, l, r) ->
      Printf.sprintf "(in %s %s %s %s)" (ni ln) (sb op) (dump_expr l) (dump_expr r)
  | E.EPostfix (ln, op, l) -> Printf.sprintf "(post %s %s %s)" (ni ln) (sb op) (dump_expr l)
  | E.ETernary (ln, c, a, b) ->
      Printf.sprintf "(tern %s %s %s %s)" (ni ln) (dump_expr c) (dump_expr a) (dump_expr b)
  | E.EIndex (ln, l, i) -> Printf.sprintf "(idx %s %s %s)" (ni ln) (dump_expr l) (dump_expr i)
  | E.EDot (ln, l, k) -> Printf.sprintf "(dot %s %s %s)" (ni ln) (dump_expr l) (dump_expr k)
  | E.ECall (ln, r, f, args) ->
      "(call " ^ ni ln ^ " " ^ dump_expr r ^ " " ^ sb f
      ^ String.concat "" (List.map (fun x -> " " ^ dump_expr x) args)
      ^ ")"

let rec dump_stmt (s : E.stmt) : string =
  match s with
  | E.SNull -> "null"
  | E.SHtml (ln, lit) -> Printf.sprintf "(html %s %s)" (ni ln) (hexb lit)
  | E.SExpr e -> "(expr " ^ dump_expr e ^ ")"
  | E.SAssign (ln, name, v) -> Printf.sprintf "(assign %s %s %s)" (ni ln) (sb name) (dump_expr v)
  | E.SIf (ln, c, cons, alts, alt) ->
      "(if " ^ ni ln ^ " " ^ dump_expr c ^ " " ^ dump_block (Some cons)
      ^ String.concat ""
          (List.map (fun (c, b) -> " (elif " ^ dump_expr c ^ " " ^ dump_block (Some b) ^ ")") alts)
      ^ " " ^ dump_block alt ^ ")"
  | E.SFor (ln, init, c, post, body, alt) ->
      Printf.sprintf "(for %s %s %s %s %s %s)" (ni ln) (dump_stmt init) (dump_expr c) (dump_stmt post)
        (dump_block (Some body)) (dump_block alt)
  | E.SEach (ln, var, arr, body, alt) ->
      Printf.sprintf "(each %s %s %s %s %s)" (ni ln) (hexb var) (dump_expr arr) (dump_block (Some body))
        (dump_block alt)
  | E.SUse (ln, name, _) -> Printf.sprintf "(use %s %s)" (ni ln) (hexb name)
  | E.SReserve (ln, _, name, _) -> Printf.sprintf "(reserve %s %s)" (ni ln) (hexb name)
  | E.SInsert (ln, name, arg, body) ->
      Printf.sprintf "(insert %s %s %s %s)" (ni ln) (hexb name) (dump_expr arg) (dump_block body)
  | E.SBreakIf (ln, c) -> Printf.sprintf "(breakif %s %s)" (ni ln) (dump_expr c)
  | E.SContinueIf (ln, c) -> Printf.sprintf "(continueif %s %s)" (ni ln) (dump_expr c)
  | E.SBreak -> "(break)"
  | E.SContinue -> "(continue)"
  | E.SComponent (ln, _, name, arg, slots, _) ->
      Printf.sprintf "(component %s %s %s (slots%s))" (ni ln) (hexb name)
        (match arg with None -> "null" | Some e -> dump_expr e)
        (String.concat ""
           (List.map
              (fun ((sln, sname), body) ->
                Printf.sprintf " (slot %s %s %s)" (ni sln) (hexb sname) (dump_block (Some body)))
              slots))
  | E.SSlot (ln, name, body) -> Printf.sprintf "(slot %s %s %s)" (ni ln) (hexb name) (dump_block body)
  | E.SDump (ln, args) ->
      "(dump " ^ ni ln ^ String.concat "" (List.map (fun x -> " " ^ dump_expr x) args) ^ ")"

and dump_block (b : E.stmt list option) : string =
  match b with
  | None -> "null"
  | Some ss -> "(block" ^ String.concat "" (List.map (fun s -> " " ^ dump_stmt s) ss) ^ ")"

let dump_program (p : E.program) : string =
  "(prog" ^ String.concat "" (List.map (fun s -> " " ^ dump_stmt s) p.E.p_stmts) ^ ")"

let model_parse src =
  match E.parse_source (bytes_of_string src) with
  | E.ParsedOk p -> "PARSE\tOK\t" ^ hex (dump_program p)
  | E.ParseErrors errs ->
      let ln, msg = List.hd errs in
      Printf.sprintf "PARSE\tERR\t%d\t%s\t%s" (List.length errs) (ni ln) (hexb msg)
  | E.ParsePanic -> "PANIC"
  | E.ParseOutOfFuel -> "OUTOFFUEL"

(* ---------- dispatch *)

let model_obs (f : string list) : string =
  match f with
  | _ :: "lex" :: src :: _ -> model_lex (unhex src)
  | _ :: "parse" :: src :: _ -> model_parse (unhex src)
  | _ -> "UNMODELLED\tunknown kind"

