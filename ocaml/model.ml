(* the model's observation per case, in the harness's format *)
module E = Twmodel_ext
open Util

(* ---------- lex *)

let show_token (t : E.token) =
  Printf.sprintf "%d:%s:%d:%d:%d:%d"
    (int_of_nat (E.tok_index t.E.ttype))
    (hexb t.E.tlit) (int_of_nat t.E.tsl) (int_of_nat t.E.tsc) (int_of_nat t.E.tel) (int_of_nat t.E.tec)

let model_lex src =
  match E.lex_all (bytes_of_string src) with
  | None -> "OUTOFFUEL"
  | Some ts -> "LEX\t" ^ String.concat ";" (List.map show_token ts)

(* ---------- dispatch *)

let model_obs (f : string list) : string =
  match f with
  | _ :: "lex" :: src :: _ -> model_lex (unhex src)
  | _ -> "UNMODELLED\tunknown kind"

