(* the model's observation per case, in the harness's format *)
module E = Twmodel_ext
open Util

(* ---------- lex *)

let show_token (t : E.token) =
  Printf.sprintf "%d:%s:%d:%d:%d:%d"
    (int_of_nat (E.tok_index t.E.ttype))
    (hexb t.E.tlit) (int_of_nat t.E.tsl) (int_of_nat t.E.tsc) (int_of_nat t.E.tel) (int_of_nat t.E.tec)

let model_lex src =
  match E.lex_all (bytes_of_string src) with
  | None -> "OUTOFFUEL"
  | Some ts -> "LEX\t" ^ String.concat ";" (List.map show_token ts)

(* lexc: the token list and, per byte offset, the model of Position.Contains for every token *)
let cursor_rows (src : string) (ts : E.token list) : string =
  let n = String.length src in
  let b = Buffer.create 256 in
  let line = ref 0 and col = ref 0 in
  for k = 0 to n do
    if k > 0 then Buffer.add_char b ',';
    List.iter
      (fun t -> Buffer.add_char b (if E.contains t (nat_of_int !line) (nat_of_int !col) then '1' else '0'))
      ts;
    if k < n then if src.[k] = '\n' then (incr line; col := 0) else incr col
  done;
  Buffer.contents b

let model_lexc src =
  match E.lex_all (bytes_of_string src) with
  | None -> "OUTOFFUEL"
  | Some ts -> "LEXC\t" ^ String.concat ";" (List.map show_token ts) ^ "\t" ^ cursor_rows src ts

(* ---------- parse: the AST dump of harness/astdump.go *)

let ni n = string_of_int (int_of_nat n)
let sb l = string_of_bytes l

let rec dump_expr (e : E.expr) : string =
  match e with
  | E.ENull -> "null"
  | E.EIdent (ln, name) -> Printf.sprintf "(id %s %s)" (ni ln) (sb name)
  | E.EInt (ln, v) -> Printf.sprintf "(int %s %s)" (ni ln) (sb (E.z_to_dec v))
  | E.EFloat (ln, lit) -> Printf.sprintf "(float %s %s)" (ni ln) (hexb lit)
  | E.EStr (ln, v) -> Printf.sprintf "(str %s %s)" (ni ln) (hexb v)
  | E.ENil ln -> Printf.sprintf "(nil %s)" (ni ln)
  | E.EBool (ln, b) -> Printf.sprintf "(bool %s %d)" (ni ln) (if b then 1 else 0)
  | E.EArr (ln, els) ->
      "(arr " ^ ni ln ^ String.concat "" (List.map (fun x -> " " ^ dump_expr x) els) ^ ")"
  | E.EObj (ln, pairs) ->
      let ps = List.map (fun (k, v) -> (sb k, v)) pairs in
      let ps = List.sort (fun (a, _) (b, _) -> compare a b) ps in
      "(obj " ^ ni ln
      ^ String.concat "" (List.map (fun (k, v) -> " (" ^ hex k ^ " " ^ dump_expr v ^ ")") ps)
      ^ ")"
  | E.EPrefix (ln, op, r) -> Printf.sprintf "(pre %s %s %s)" (ni ln) (sb op) (dump_expr r)
  | E.EInfix (ln, op, l, r) ->
      Printf.sprintf "(in %s %s %s %s)" (ni ln) (sb op) (dump_expr l) (dump_expr r)
  | E.EPostfix (ln, op, l) -> Printf.sprintf "(post %s %s %s)" (ni ln) (sb op) (dump_expr l)
  | E.ETernary (ln, c, a, b) ->
      Printf.sprintf "(tern %s %s %s %s)" (ni ln) (dump_expr c) (dump_expr a) (dump_expr b)
  | E.EIndex (ln, l, i) -> Printf.sprintf "(idx %s %s %s)" (ni ln) (dump_expr l) (dump_expr i)
  | E.EDot (ln, l, k) -> Printf.sprintf "(dot %s %s %s)" (ni ln) (dump_expr l) (dump_expr k)
  | E.ECall (ln, r, f, args) ->
      "(call " ^ ni ln ^ " " ^ dump_expr r ^ " " ^ sb f
      ^ String.concat "" (List.map (fun x -> " " ^ dump_expr x) args)
      ^ ")"

let rec dump_stmt (s : E.stmt) : string =
  match s with
  | E.SNull -> "null"
  | E.SHtml (ln, lit) -> Printf.sprintf "(html %s %s)" (ni ln) (hexb lit)
  | E.SExpr e -> "(expr " ^ dump_expr e ^ ")"
  | E.SAssign (ln, name, v) -> Printf.sprintf "(assign %s %s %s)" (ni ln) (sb name) (dump_expr v)
  | E.SIf (ln, c, cons, alts, alt) ->
      "(if " ^ ni ln ^ " " ^ dump_expr c ^ " " ^ dump_block (Some cons)
      ^ String.concat ""
          (List.map (fun (c, b) -> " (elif " ^ dump_expr c ^ " " ^ dump_block (Some b) ^ ")") alts)
      ^ " " ^ dump_block alt ^ ")"
  | E.SFor (ln, init, c, post, body, alt) ->
      Printf.sprintf "(for %s %s %s %s %s %s)" (ni ln) (dump_stmt init) (dump_expr c) (dump_stmt post)
        (dump_block (Some body)) (dump_block alt)
  | E.SEach (ln, var, arr, body, alt) ->
      Printf.sprintf "(each %s %s %s %s %s)" (ni ln) (hexb var) (dump_expr arr) (dump_block (Some body))
        (dump_block alt)
  | E.SUse (ln, name, _) -> Printf.sprintf "(use %s %s)" (ni ln) (hexb name)
  | E.SReserve (ln, _, name, _) -> Printf.sprintf "(reserve %s %s)" (ni ln) (hexb name)
  | E.SInsert (ln, name, arg, body) ->
      Printf.sprintf "(insert %s %s %s %s)" (ni ln) (hexb name) (dump_expr arg) (dump_block body)
  | E.SBreakIf (ln, c) -> Printf.sprintf "(breakif %s %s)" (ni ln) (dump_expr c)
  | E.SContinueIf (ln, c) -> Printf.sprintf "(continueif %s %s)" (ni ln) (dump_expr c)
  | E.SBreak -> "(break)"
  | E.SContinue -> "(continue)"
  | E.SComponent (ln, _, name, arg, slots, _) ->
      Printf.sprintf "(component %s %s %s (slots%s))" (ni ln) (hexb name)
        (match arg with None -> "null" | Some e -> dump_expr e)
        (String.concat ""
           (List.map
              (fun ((sln, sname), body) ->
                Printf.sprintf " (slot %s %s %s)" (ni sln) (hexb sname) (dump_block (Some body)))
              slots))
  | E.SSlot (ln, name, body) -> Printf.sprintf "(slot %s %s %s)" (ni ln) (hexb name) (dump_block body)
  | E.SDump (ln, args) ->
      "(dump " ^ ni ln ^ String.concat "" (List.map (fun x -> " " ^ dump_expr x) args) ^ ")"

and dump_block (b : E.stmt list option) : string =
  match b with
  | None -> "null"
  | Some ss -> "(block" ^ String.concat "" (List.map (fun s -> " " ^ dump_stmt s) ss) ^ ")"

let dump_program (p : E.program) : string =
  "(prog" ^ String.concat "" (List.map (fun s -> " " ^ dump_stmt s) p.E.p_stmts) ^ ")"

let model_parse src =
  match E.parse_source (bytes_of_string src) with
  | E.ParsedOk p -> "PARSE\tOK\t" ^ hex (dump_program p)
  | E.ParseErrors errs ->
      let ln, msg = List.hd errs in
      Printf.sprintf "PARSE\tERR\t%d\t%s\t%s" (List.length errs) (ni ln) (hexb msg)
  | E.ParsePanic -> "PANIC"
  | E.ParseOutOfFuel -> "OUTOFFUEL"

(* ---------- data descriptions (harness/data.go) -> goval *)

type sx = A of string | L of sx list

let parse_sx (s : string) : sx =
  let n = String.length s in
  let pos = ref 0 in
  let rec skip () = if !pos < n && (s.[!pos] = ' ' || s.[!pos] = '\n') then (incr pos; skip ()) in
  let rec rd () =
    skip ();
    if !pos >= n then failwith "sx: unexpected end";
    if s.[!pos] = '(' then begin
      incr pos;
      let items = ref [] in
      let fin = ref false in
      while not !fin do
        skip ();
        if !pos >= n then failwith "sx: unterminated";
        if s.[!pos] = ')' then (incr pos; fin := true) else items := rd () :: !items
      done;
      L (List.rev !items)
    end else begin
      let st = !pos in
      while !pos < n && s.[!pos] <> ' ' && s.[!pos] <> '(' && s.[!pos] <> ')' && s.[!pos] <> '\n' do incr pos done;
      A (String.sub s st (!pos - st))
    end
  in
  rd ()

(* decimal / hex text -> Z without going through OCaml ints (int64 range and beyond) *)
let z_of_dec (s : string) : E.z =
  let neg = String.length s > 0 && s.[0] = '-' in
  let digits = if neg then String.sub s 1 (String.length s - 1) else s in
  let v = E.decz E.Z0 (bytes_of_string digits) in
  if neg then E.Z.opp v else v

let z_of_hex (s : string) : E.z =
  let acc = ref E.Z0 in
  String.iter
    (fun c ->
      let d = match c with '0' .. '9' -> Char.code c - 48 | 'a' .. 'f' -> Char.code c - 87 | _ -> failwith "hex" in
      acc := E.Z.add (E.Z.mul !acc (z_of_int 16)) (z_of_int d))
    s;
  !acc

let rec goval_of_sx (x : sx) : E.goval =
  match x with
  | L (A "nil" :: _) -> E.GNil
  | L [ A ("bool" | "nbool"); A b ] -> E.GBool (b = "1")
  | L [ A ("nint" | "nint8" | "nuint16"); A v ] -> E.GInt (z_of_dec v)
  | L [ A "nf64"; A bits ] -> E.GFloat (E.f_of_bits (z_of_hex bits))
  | L [ A "nstr"; A h ] -> E.GStr (bytes_of_string (unhex h))
  | L [ A ("int" | "int8" | "int16" | "int32" | "int64" | "uint" | "uint8" | "uint16" | "uint32" | "uint64"); A v ] ->
      E.GInt (z_of_dec v)
  | L [ A ("f64" | "f32"); A bits ] -> E.GFloat (E.f_of_bits (z_of_hex bits))
  | L [ A "str"; A h ] -> E.GStr (bytes_of_string (unhex h))
  | L (A "slice" :: items) -> E.GSlice (List.map goval_of_sx items)
  | L (A "tslice" :: _ :: items) -> E.GSlice (List.map goval_of_sx items)
  | L (A "map" :: items) -> E.GMap (List.map kv_of_sx items)
  | L (A "tmap" :: _ :: items) -> E.GMap (List.map kv_of_sx items)
  | L (A "struct" :: fields) ->
      E.GStruct
        (List.map
           (function
             | L [ A name; v ] ->
                 let c = name.[0] in
                 ((bytes_of_string name, c >= 'A' && c <= 'Z'), goval_of_sx v)
             | _ -> failwith "struct field")
           fields)
  | L [ A "ptr"; v ] -> E.GPtr (goval_of_sx v)
  | L (A "nilptr" :: _) -> E.GNilPtr
  | L (A "shared" :: _) -> goval_of_sx (parse_sx "(slice (ptr (int 5)) (ptr (int 5)) (map (70 (ptr (int 5)))))")
  | L (A "sharedptr" :: _) ->
      goval_of_sx (parse_sx "(slice (struct (Title (str 61)) (Author (ptr (struct (Name (str 416e6e)))))) (struct (Title (str 62)) (Author (ptr (struct (Name (str 416e6e)))))))")
  | L (A "sharedslice" :: _) ->
      goval_of_sx (parse_sx "(struct (A (slice (str 78) (str 79))) (B (slice (str 78) (str 79))) (All (slice (slice (str 78) (str 79)) (slice (str 78) (str 79)))))")
  | L (A "sharedmap" :: _) ->
      goval_of_sx (parse_sx "(map (61 (map (6b (int 1)))) (62 (map (6b (int 1)))) (6c (slice (map (6b (int 1))) (map (6b (int 1))))))")
  | L (A ("chan" | "func" | "nilchan" | "nilfunc" | "complex" | "array2" | "imap" | "bmap" | "cyc" | "cycmap" | "cycslice" | "cyc2") :: _) -> E.GOther
  | _ -> failwith "unknown data value"

and kv_of_sx = function
  | L [ A k; v ] -> (bytes_of_string (unhex k), goval_of_sx v)
  | _ -> failwith "bad pair"

let data_of_string (s : string) : (E.bytes * E.goval) list =
  if s = "" then []
  else match parse_sx s with L items -> List.map kv_of_sx items | _ -> failwith "data must be a list"

(* ---------- render *)

let empty_ctx : E.ctx = { E.custom = [] }

let show_render (r : E.render_result) : string =
  match r with
  | E.RenderOk out -> "RENDER\tOK\t" ^ hexb out
  | E.RenderErr (ln, msg) -> Printf.sprintf "RENDER\tERR\t%s\t-\t%s" (ni ln) (hexb msg)
  | E.RenderUnsupportedData -> "RENDER\tUNSUPPORTED-DATA"
  | E.RenderPanic -> "PANIC"
  | E.RenderOutOfFuel -> "HANG"
  | E.RenderUnmodelled -> "UNMODELLED"

let model_render src data =
  show_render (E.evaluate_string empty_ctx (bytes_of_string src) (data_of_string data))

(* ---------- tree: file system + operation history (harness/tree.go) *)

let fs_of_sx (x : sx) : (E.bytes * E.fnode) list =
  match x with
  | L items ->
      List.map
        (function
          | L (A p :: A kind :: rest) ->
              let content = match rest with A c :: _ -> unhex c | _ -> "" in
              ( bytes_of_string (unhex p),
                match kind with
                | "file" | "unreadable" -> E.FFile (bytes_of_string content)
                | "dir" -> E.FDir
                | "dangling" -> E.FDangling
                | _ -> failwith "fs kind" )
          | _ -> failwith "fs entry")
        items
  | _ -> failwith "fs"

let data_of_sx (x : sx) : (E.bytes * E.goval) list =
  match x with L items -> List.map kv_of_sx items | A _ -> []

let fnid_of = function
  | "id" -> E.F_id | "const" -> E.F_const | "const2" -> E.F_const2 | "echo" -> E.F_echo
  | "args" -> E.F_args | "nargs" -> E.F_nargs | "not" -> E.F_not | "revip" -> E.F_revip
  | "nilres" -> E.F_args        (* called without arguments only: the empty array *)
  | "unsup" | "unsup2" -> E.F_nargs   (* on an array receiver the model has no answer for these: the call is unmodelled *)
  | s -> failwith ("fnid " ^ s)

let type_of_short = function
  | "str" -> "STRING" | "arr" -> "ARRAY" | "int" -> "INTEGER" | "float" -> "FLOAT" | "bool" -> "BOOLEAN"
  | s -> failwith ("receiver type " ^ s)

let op_of_sx (x : sx) : E.op option =
  let b h = bytes_of_string (unhex h) in
  let dat = function d :: _ -> data_of_sx d | [] -> [] in
  match x with
  | L [ A "new"; A d; A e; A p; A dbg ] -> Some (E.OpNew (b d, b e, b p, dbg = "1"))
  | L (A "string" :: A n :: rest) -> Some (E.OpString (b n, dat rest))
  | L (A "response" :: A n :: rest) -> Some (E.OpResponse (b n, dat rest))
  | L (A "evalstr" :: A s :: rest) -> Some (E.OpEvalStr (b s, dat rest))
  | L (A "evalfile" :: A p :: rest) -> Some (E.OpEvalFile (b p, dat rest))
  | L [ A "reg"; A ty; A n; A f ] -> Some (E.OpReg (bytes_of_string (type_of_short ty), b n, fnid_of f))
  | L [ A "configure"; A d; A e; A p; A dbg ] -> Some (E.OpConfigure (b d, b e, b p, dbg = "1"))
  | _ -> None

let show_err (e : E.terr) =
  Printf.sprintf "ERR %s %s %s" (ni e.E.e_line) (hexb e.E.e_path) (hexb e.E.e_msg)

exception Model_hang

let show_obs (o : E.obs) : string =
  match o with
  | E.ObsNewOk names -> "OK " ^ String.concat "," (List.map hexb names)
  | E.ObsErr e -> show_err e
  | E.ObsOut out -> "OK " ^ hexb out
  | E.ObsRegOk -> "OK"
  | E.ObsNoTemplate -> "NOTPL"
  | E.ObsUnsupportedData -> "UNSUPPORTED-DATA"
  | E.ObsPanic -> "PANIC"
  | E.ObsOutOfFuel -> raise Model_hang
  | E.ObsUnmodelled -> "UNMODELLED"
  | E.ObsResp r -> (
      match r with
      | E.RespOk body -> "RESP " ^ hexb body ^ " OK"
      | E.RespFail (body, e) | E.RespFailOther (body, e) -> "RESP " ^ hexb body ^ " " ^ show_err e
      | E.RespUnsupportedData -> "UNSUPPORTED-DATA"
      | E.RespPanic -> "PANIC"
      | E.RespOutOfFuel -> raise Model_hang
      | E.RespUnmodelled -> "UNMODELLED")

let model_tree (fsx : string) (opsx : string) : string =
  let fs = fs_of_sx (parse_sx fsx) in
  let ops = match parse_sx opsx with L l -> l | _ -> failwith "ops" in
  let ops' = List.map op_of_sx ops in
  if List.exists (fun o -> o = None) ops' then "UNMODELLED\tunknown op"
  else
    let ops'' = List.map (function Some o -> o | None -> assert false) ops' in
    try
      let obs = E.run_history fs E.init_state ops'' in
      let strs = List.map show_obs obs in
      if List.exists (fun s -> s = "UNMODELLED") strs then "UNMODELLED"
      else "TREE\t" ^ String.concat "|" strs
    with Model_hang -> "HANG"

(* ---------- dispatch *)

let model_obs (f : string list) : string =
  match f with
  | _ :: "lex" :: src :: _ -> model_lex (unhex src)
  | _ :: "lexc" :: src :: _ -> model_lexc (unhex src)
  | _ :: "parse" :: src :: _ -> model_parse (unhex src)
  | [ _; "render"; src ] -> model_render (unhex src) ""
  | _ :: "render" :: src :: data :: _ -> model_render (unhex src) (unhex data)
  | _ :: "tree" :: fs :: ops :: _ -> model_tree (unhex fs) (unhex ops)
  | _ :: "conc" :: _ -> "CONC-MODEL"
  | _ -> "UNMODELLED\tunknown kind"


(* canonical comparison of the model's observation with the implementation's *)
let same_obs (m : string) (impl : string) : bool =
  if m = impl then true
  else
    let mf = String.split_on_char '\t' m and imf = String.split_on_char '\t' impl in
    match mf, imf with
    | [ "PANIC" ], "PANIC" :: _ -> true
    | [ "RENDER"; "UNSUPPORTED-DATA" ], [ "RENDER"; "ERR"; "0"; "-"; msg ] ->
        starts_with "unsupported type '" (unhex msg)
    | [ "CONC-MODEL" ], "CONC" :: _ :: "diff=0" :: _ -> true
    | [ "TREE"; mo ], [ "TREE"; io ] ->
        let ml = String.split_on_char '|' mo and il = String.split_on_char '|' io in
        List.length ml = List.length il
        && List.for_all2
             (fun a b ->
               a = b
               || (a = "PANIC" && starts_with "PANIC" b)
               || (a = "UNSUPPORTED-DATA"
                  && (match String.split_on_char ' ' b with
                     | [ "ERR"; "0"; "-"; msg ] -> starts_with "unsupported type '" (unhex msg)
                     | _ -> false)))
             ml il
    | _ -> false
