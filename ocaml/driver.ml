(* Hand-written glue around the extracted Coq model (twmodel_ext.ml).
   twmodel check <cases> <obs>  : per case, run the model on the case, compare
                                  with the implementation's observation (correspondence)
                                  and apply the property's extracted oracle.
   twmodel model <cases>        : print the model's observation per case. *)
open Util
open Model


let read_lines path =
  let ic = open_in path in
  let rec go acc = match input_line ic with l -> go (l :: acc) | exception End_of_file -> List.rev acc in
  let r = go [] in
  close_in ic;
  List.filter (fun l -> l <> "") r

let () =
  match Array.to_list Sys.argv with
  | [ _; "model"; cases ] ->
      List.iter
        (fun line ->
          let f = split_tab line in
          print_string (List.hd f ^ "\t" ^ model_obs f ^ "\n"))
        (read_lines cases)
  | [ _; "expand"; cases ] ->
      List.iter
        (fun line ->
          match Spec.expand (split_tab line) with
          | Some l -> print_string (l ^ "\n")
          | None -> print_string (line ^ "\n"))
        (read_lines cases)
  | [ _; "check"; cases; obs ] ->
      let cl = read_lines cases and ol = read_lines obs in
      if List.length cl <> List.length ol then begin
        prerr_endline "twmodel: cases and observations differ in length";
        exit 2
      end;
      List.iter2
        (fun cline oline ->
          let f = split_tab cline in
          let id = List.hd f in
          let impl =
            match String.index_opt oline '\t' with
            | Some k -> String.sub oline (k + 1) (String.length oline - k - 1)
            | None -> ""
          in
          let m = model_obs f in
          let corr =
            if starts_with "UNMODELLED" m then "unmodelled" else if same_obs m impl then "same" else "DIFF"
          in
          let orc = Oracles.oracle f impl in
          print_string (String.concat "\t" [ id; corr; orc; m ] ^ "\n"))
        cl ol
  | _ ->
      prerr_endline "usage: twmodel model <cases> | check <cases> <obs>";
      exit 2
