(* readers for specification objects (s-expressions written by tools/props.py) and the
   expansion of specification cases into harness cases with the expected result attached *)
module E = Twmodel_ext
open Util
open Model

let atom = function A s -> s | L _ -> failwith "atom expected"

let binop_of = function
  | "add" -> E.BAdd | "sub" -> E.BSub | "mul" -> E.BMul | "div" -> E.BDiv | "mod" -> E.BMod
  | "eq" -> E.BEq | "ne" -> E.BNe | "lt" -> E.BLt | "gt" -> E.BGt | "le" -> E.BLe | "ge" -> E.BGe
  | s -> failwith ("binop " ^ s)

let rec sexpr_of (x : sx) : E.sexpr =
  match x with
  | L [ A "int"; A v ] -> E.XInt (z_of_dec v)
  | L [ A "float"; A m; A k ] -> E.XFloat (z_of_dec m, nat_of_int (int_of_string k))
  | L [ A "str"; A h; A dq ] -> E.XStr (bytes_of_string (unhex h), dq = "1")
  | L [ A "bool"; A b ] -> E.XBool (b = "1")
  | L [ A "nil" ] -> E.XNil
  | L [ A "var"; A n ] -> E.XVar (bytes_of_string n)
  | L [ A "neg"; e ] -> E.XNeg (sexpr_of e)
  | L [ A "not"; e ] -> E.XNot (sexpr_of e)
  | L [ A "inc"; e ] -> E.XInc (sexpr_of e)
  | L [ A "dec"; e ] -> E.XDec (sexpr_of e)
  | L [ A "bin"; A op; l; r ] -> E.XBin (binop_of op, sexpr_of l, sexpr_of r)
  | L [ A "tern"; c; a; b ] -> E.XTern (sexpr_of c, sexpr_of a, sexpr_of b)
  | L [ A "idx"; l; i ] -> E.XIndex (sexpr_of l, sexpr_of i)
  | L [ A "prop"; l; A n ] -> E.XProp (sexpr_of l, bytes_of_string n)
  | L (A "call" :: r :: A fn :: args) -> E.XCall (sexpr_of r, bytes_of_string fn, List.map sexpr_of args)
  | L (A "arr" :: els) -> E.XArr (List.map sexpr_of els)
  | L (A "obj" :: pairs) ->
      E.XObj (List.map (function L [ A k; v ] -> (bytes_of_string k, sexpr_of v) | _ -> failwith "obj pair") pairs)
  | _ -> failwith "unknown sexpr"

let rec tnode_of (x : sx) : E.tnode =
  match x with
  | L [ A "text"; A h ] -> E.NText (bytes_of_string (unhex h))
  | L [ A "print"; e ] -> E.NPrint (sexpr_of e)
  | L [ A "assign"; A v; e ] -> E.NAssign (bytes_of_string v, sexpr_of e)
  | L [ A "if"; c; thn; L (A "elifs" :: elifs); els ] ->
      E.NIf
        ( sexpr_of c,
          block_of thn,
          List.map (function L [ c; b ] -> (sexpr_of c, block_of b) | _ -> failwith "elif") elifs,
          opt_block els )
  | L [ A "each"; A v; arr; body; els ] -> E.NEach (bytes_of_string v, sexpr_of arr, block_of body, opt_block els)
  | L [ A "for"; init; cond; post; body; els ] ->
      let init' = match init with L [ A "init"; A v; e ] -> Some (bytes_of_string v, sexpr_of e) | _ -> None in
      let cond' = match cond with A "none" -> None | e -> Some (sexpr_of e) in
      let post' =
        match post with
        | L [ A "inc"; A v ] -> Some (E.PostInc (bytes_of_string v))
        | L [ A "dec"; A v ] -> Some (E.PostDec (bytes_of_string v))
        | L [ A "set"; A v; e ] -> Some (E.PostAssign (bytes_of_string v, sexpr_of e))
        | _ -> None
      in
      E.NFor (init', cond', post', block_of body, opt_block els)
  | L [ A "break" ] -> E.NBreak
  | L [ A "continue" ] -> E.NContinue
  | L [ A "breakif"; e ] -> E.NBreakIf (sexpr_of e)
  | L [ A "continueif"; e ] -> E.NContinueIf (sexpr_of e)
  | _ -> failwith "unknown tnode"

and block_of = function L (A "b" :: ns) -> List.map tnode_of ns | _ -> failwith "block"

and opt_block = function A "none" -> None | b -> Some (block_of b)

let bools_of (s : string) : bool list = List.init (String.length s) (fun i -> s.[i] = '1')

let nats_of (s : string) : E.nat list =
  if s = "" then [] else List.map (fun x -> nat_of_int (int_of_string x)) (String.split_on_char ',' s)

(* built-in calls inside C01 expressions: their meaning is C11's subject *)
let call_spec (rv : E.value) (fn : E.bytes) (args : E.value list) : E.sres = E.builtin_spec rv fn args

(* the data map as the specification sees it: name -> value *)
let spec_env (data : string) : (E.bytes * E.value) list option =
  let kvs = data_of_string data in
  let rec go = function
    | [] -> Some []
    | (k, g) :: r -> (
        match E.to_object g, go r with Some v, Some rest -> Some ((k, v) :: rest) | _ -> None)
  in
  go kvs

let shown_to_string = function
  | E.ShownText s -> "OK:" ^ hexb s
  | E.ShownError -> "ERR"
  | E.ShownUnmodelled -> "UNMODELLED"

(* one specification case -> one harness case line (None: not a specification case) *)
let expand (f : string list) : string option =
  match f with
  | [ id; "xexpr"; ex; parens; seps; data ] ->
      let e = sexpr_of (parse_sx (unhex ex)) in
      let body = E.render_expr e (bools_of (unhex parens)) (nats_of (unhex seps)) in
      let src = "{{ " ^ string_of_bytes body ^ " }}" in
      let expected =
        match spec_env (unhex data) with
        | None -> "NA"
        | Some env -> shown_to_string (E.show_sres (E.sem call_spec (nat_of_int 200) env e))
      in
      Some (String.concat "\t" [ id; "render"; hex src; data; "S:" ^ expected ])
  | [ id; "xtpl"; tpl; data ] ->
      let ns = block_of (parse_sx (unhex tpl)) in
      let src = string_of_bytes (E.print_template ns) in
      let expected =
        match spec_env (unhex data) with
        | None -> "NA"
        | Some env -> (
            match E.run_template call_spec (nat_of_int 400) env ns with
            | E.TOk (o, _, _) -> "OK:" ^ hexb o
            | E.TFail -> "ERR"
            | E.TNoFuel -> "NA"
            | E.TUnprintable -> "UNMODELLED")
      in
      Some (String.concat "\t" [ id; "render"; hex src; data; "S:" ^ expected ])
  | [ id; "xtext"; src ] ->
      let expected =
        match E.text_spec (bytes_of_string (unhex src)) with
        | E.TOut o -> "OK:" ^ hexb o
        | E.TError -> "ERR"
        | E.TOutOfDomain -> "NA"
      in
      Some (String.concat "\t" [ id; "render"; src; "-"; "S:" ^ expected ])
  | [ id; "xassign"; ex; parens; seps; data ] ->
      (* the right-hand side of an assignment is a complete expression *)
      let e = sexpr_of (parse_sx (unhex ex)) in
      let body = E.render_expr e (bools_of (unhex parens)) (nats_of (unhex seps)) in
      let src = "{{ zz9 = " ^ string_of_bytes body ^ " ; zz9 }}" in
      let expected =
        match spec_env (unhex data) with
        | None -> "NA"
        | Some env -> shown_to_string (E.show_sres (E.sem call_spec (nat_of_int 200) env e))
      in
      Some (String.concat "\t" [ id; "render"; hex src; data; "S:" ^ expected ])
  | _ -> None
