(* property oracles: extracted specification predicates applied to the
   IMPLEMENTATION's observation.  Result: "ok" | "na" | "FAIL:<reason>" *)
module E = Twmodel_ext
open Util

let oracle (_f : string list) (_impl : string) : string = "na"
