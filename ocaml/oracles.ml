(* property oracles: extracted specification predicates applied to the
   IMPLEMENTATION's observation.  Result: "ok" | "na" | "FAIL:<reason>" *)
module E = Twmodel_ext
open Util

let split_on c s = String.split_on_char c s

(* "T:lithex:sl:sc:el:ec;..." -> extracted tokens *)
let parse_tokens (s : string) : E.token list option =
  try
    let all = Array.of_list E.all_toks in
    Some
      (List.map
         (fun t ->
           match split_on ':' t with
           | [ ty; lit; sl; sc; el; ec ] ->
               { E.ttype = all.(int_of_string ty);
                 E.tlit = bytes_of_string (unhex lit);
                 E.tsl = nat_of_int (int_of_string sl);
                 E.tsc = nat_of_int (int_of_string sc);
                 E.tel = nat_of_int (int_of_string el);
                 E.tec = nat_of_int (int_of_string ec) }
           | _ -> failwith "token")
         (split_on ';' s))
  with _ -> None

let reason_c19 = function
  | 1 -> "token stream does not end in EOF"
  | 2 -> "EOF is not just past the last byte"
  | 3 -> "bytes between the last token and EOF are not blank/comment"
  | 4 -> "tokens after EOF"
  | 5 -> "token overlaps its predecessor or is out of order"
  | 6 -> "token ends before it starts"
  | 7 -> "token ends past the input"
  | 8 -> "gap before token holds something other than whitespace-in-code or comments"
  | 9 -> "bytes of the token's range are not the token's own text"
  | 10 -> "a token position is not the (line, column) of any byte offset"
  | n -> "reason " ^ string_of_int n

let oracle_c19 (src : string) (impl : string) : string =
  match split_on '\t' impl with
  | [ "LEX"; toks ] -> (
      match parse_tokens toks with
      | None -> "FAIL:unparsable token list (overrun?)"
      | Some ts -> (
          match E.check_tokens (bytes_of_string src) ts with
          | None -> "ok"
          | Some r -> "FAIL:" ^ reason_c19 (int_of_nat r)))
  | "HANG" :: _ -> "FAIL:lexer did not return"
  | "PANIC" :: _ | "CRASH" :: _ -> "FAIL:lexer crashed"
  | _ -> "FAIL:unexpected observation"

(* C19, cursors: a cursor at byte offset k lies in token i exactly when k is inside the byte
   range of token i (offsets recovered from the positions with the specification's lc), hence in
   at most one token *)
let oracle_c19_cursors (src : string) (impl : string) : string =
  match split_on '\t' impl with
  | [ "LEXC"; toks; rows ] -> (
      match parse_tokens toks with
      | None -> "FAIL:unparsable token list (overrun?)"
      | Some ts -> (
          let input = bytes_of_string src in
          match E.check_tokens input ts with
          | Some r -> "FAIL:" ^ reason_c19 (int_of_nat r)
          | None ->
              let n = String.length src in
              let lcs = Array.init (n + 1) (fun k -> E.lc input (nat_of_int k)) in
              let off (l, c) =
                let r = ref (-1) in
                Array.iteri (fun k (l', c') -> if !r < 0 && int_of_nat l' = l && int_of_nat c' = c then r := k) lcs;
                !r
              in
              let ranges =
                List.map (fun t -> (off (int_of_nat t.E.tsl, int_of_nat t.E.tsc), off (int_of_nat t.E.tel, int_of_nat t.E.tec), t)) ts
              in
              let rws = Array.of_list (split_on ',' rows) in
              if Array.length rws <> n + 1 then "FAIL:cursor rows missing"
              else begin
                let bad = ref "" in
                Array.iteri
                  (fun k row ->
                    if !bad = "" then begin
                      if String.length row <> List.length ts then bad := "row width"
                      else begin
                        let ones = ref 0 in
                        List.iteri
                          (fun i (s, e, t) ->
                            let got = row.[i] = '1' in
                            if got then incr ones;
                            let want = s >= 0 && e >= 0 && s <= k && k <= e in
                            if got <> want then
                              bad := Printf.sprintf "Contains of token %d at offset %d is %b, its byte range is [%d,%d]" i k got s e)
                          ranges;
                        if !bad = "" && !ones > 1 then bad := Printf.sprintf "cursor at offset %d lies in %d tokens" k !ones
                      end
                    end)
                  rws;
                if !bad = "" then "ok" else "FAIL:" ^ !bad
              end))
  | "HANG" :: _ -> "FAIL:lexer did not return"
  | "PANIC" :: _ | "CRASH" :: _ -> "FAIL:lexer crashed"
  | _ -> "FAIL:unexpected observation"

(* the expected result computed by the extracted specification travels with the case
   as a trailing field "S:..." (written by Spec.expand) *)
let expected_field (f : string list) : string option =
  List.fold_left (fun acc x -> if starts_with "S:" x then Some (String.sub x 2 (String.length x - 2)) else acc) None f

let oracle_expected (exp : string) (impl : string) : string =
  let imf = split_on '\t' impl in
  if exp = "NA" || exp = "UNMODELLED" then "na"
  else if exp = "ERR" then (
    match imf with
    | "RENDER" :: "ERR" :: _ -> "ok"
    | "RENDER" :: "OK" :: out :: _ -> "FAIL:specification says error, implementation rendered " ^ out
    | k :: _ -> "FAIL:specification says error, implementation " ^ k
    | [] -> "FAIL:no observation")
  else if starts_with "OK:" exp then (
    let want = String.sub exp 3 (String.length exp - 3) in
    match imf with
    | [ "RENDER"; "OK"; out ] -> if out = want then "ok" else "FAIL:specification says " ^ want ^ ", implementation rendered " ^ out
    | "RENDER" :: "ERR" :: _ -> "FAIL:specification says " ^ want ^ ", implementation returned an error"
    | k :: _ -> "FAIL:specification says " ^ want ^ ", implementation " ^ k
    | [] -> "FAIL:no observation")
  else "na"

(* C08: lexing and parsing return, with a program or an error that carries a line.
   ids "C08e:" mark inputs that cut an open construct or contain an illegal character:
   those must be rejected. *)
let oracle_c08 (id : string) (impl : string) : string =
  let must_err = starts_with "C08e" id in
  match split_on '\t' impl with
  | [ "PARSE"; "OK"; _ ] -> if must_err then "FAIL:accepted silently, an error was required" else "ok"
  | [ "PARSE"; "ERR"; n; line; _ ] ->
      if int_of_string n < 1 then "FAIL:error list empty"
      else if int_of_string line < 1 then "FAIL:error without a line number"
      else "ok"
  | "LEX" :: toks :: _ ->
      if String.length toks >= 7 && String.sub toks (String.length toks - 7) 7 = "OVERRUN" then "FAIL:lexer produces tokens without end"
      else "ok"
  | "RENDER" :: "OK" :: _ -> if must_err then "FAIL:accepted silently, an error was required" else "ok"
  | "RENDER" :: "ERR" :: line :: _ -> if line = "?" then "FAIL:error without a line number" else "ok"
  | "HANG" :: _ -> "FAIL:did not return (hang)"
  | "PANIC" :: _ -> "FAIL:panic"
  | "CRASH" :: _ -> "FAIL:process crashed"
  | "PARSE" :: "NILPROG" :: _ -> "FAIL:nil program without a recorded error"
  | _ -> "FAIL:unexpected observation"

(* C09: rendering returns output or an error value, never panics; evaluation errors carry a line *)
let oracle_c09 (impl : string) : string =
  match split_on '\t' impl with
  | "RENDER" :: "OK" :: _ -> "ok"
  | "RENDER" :: "ERR" :: line :: _ :: msg :: _ ->
      let m = unhex msg in
      if line = "0" && not (starts_with "unsupported type" m || starts_with "loop variable is reserved" m)
      then "FAIL:evaluation error without a line: " ^ m
      else "ok"
  | "HANG" :: _ -> "na"
  | "PANIC" :: msg :: _ -> "FAIL:panic: " ^ unhex msg
  | "PANIC" :: _ -> "FAIL:panic"
  | "CRASH" :: _ -> "FAIL:process crashed"
  | _ -> "FAIL:unexpected observation"

(* constraints on the observations of a tree history, written by the generator from the
   property text: a trailing field "Q:c1;c2;..." with
     eq:i:j  ok:i  err:i  line:i:N  path:i:HEX  msgsub:i:HEX  out:i:HEX
     body:i:HEX (response body contains)  nobody:i:HEX (does not contain)  bodyeq:i:j  nopanic *)
let contains_sub (s : string) (sub : string) : bool =
  let n = String.length s and m = String.length sub in
  if m = 0 then true
  else begin
    let found = ref false in
    let i = ref 0 in
    while (not !found) && !i + m <= n do
      if String.sub s !i m = sub then found := true;
      incr i
    done;
    !found
  end

let oracle_constraints (q : string) (impl : string) : string =
  match split_on '\t' impl with
  | "HANG" :: _ -> "FAIL:did not return (hang)"
  | "CRASH" :: _ -> "FAIL:process crashed"
  | "PANIC" :: _ -> "FAIL:panic"
  | [ "TREE"; obs ] -> (
      let ops = Array.of_list (split_on '|' obs) in
      let get i = if i < Array.length ops then ops.(i) else "MISSING" in
      let words i = split_on ' ' (get i) in
      let is_err i = match words i with "ERR" :: _ -> true | "RESP" :: _ :: "ERR" :: _ -> true | _ -> false in
      let is_ok i = match words i with "OK" :: _ -> true | [ "RESP"; _; "OK" ] -> true | _ -> false in
      let err_fields i =
        match words i with
        | [ "ERR"; l; p; m ] -> Some (l, unhex p, unhex m)
        | [ "RESP"; _; "ERR"; l; p; m ] -> Some (l, unhex p, unhex m)
        | _ -> None
      in
      let body i = match words i with "RESP" :: b :: _ -> Some (unhex b) | _ -> None in
      let check c =
        match split_on ':' c with
        | [ "eq"; i; j ] ->
            if get (int_of_string i) = get (int_of_string j) then None
            else Some ("operations " ^ i ^ " and " ^ j ^ " must agree: " ^ get (int_of_string i) ^ " vs " ^ get (int_of_string j))
        | [ "agree"; i; j ] ->
            (* the same output, or both fail with the same message (the file path differs between the APIs) *)
            let a = int_of_string i and b = int_of_string j in
            if is_ok a && get a = get b then None
            else (
              match err_fields a, err_fields b with
              | Some (_, _, m1), Some (_, _, m2) when m1 = m2 -> None
              | _ -> Some ("operations " ^ i ^ " and " ^ j ^ " must agree: " ^ get a ^ " vs " ^ get b))
        | [ "ok"; i ] -> if is_ok (int_of_string i) then None else Some ("operation " ^ i ^ " must succeed: " ^ get (int_of_string i))
        | [ "err"; i ] -> if is_err (int_of_string i) then None else Some ("operation " ^ i ^ " must fail: " ^ get (int_of_string i))
        | [ "line"; i; n ] -> (
            match err_fields (int_of_string i) with
            | Some (l, _, _) when l = n -> None
            | Some (l, _, _) -> Some ("operation " ^ i ^ " must report line " ^ n ^ ", reports " ^ l)
            | None -> Some ("operation " ^ i ^ " must fail with line " ^ n ^ ": " ^ get (int_of_string i)))
        | [ "path"; i; h ] -> (
            match err_fields (int_of_string i) with
            | Some (_, p, _) when p = unhex h -> None
            | Some (_, p, _) -> Some ("operation " ^ i ^ " must report path " ^ unhex h ^ ", reports " ^ p)
            | None -> Some ("operation " ^ i ^ " must fail with a path: " ^ get (int_of_string i)))
        | [ "msgsub"; i; h ] -> (
            match err_fields (int_of_string i) with
            | Some (_, _, m) when contains_sub m (unhex h) -> None
            | Some (_, _, m) -> Some ("operation " ^ i ^ " message must mention " ^ unhex h ^ ": " ^ m)
            | None -> Some ("operation " ^ i ^ " must fail: " ^ get (int_of_string i)))
        | [ "out"; i; h ] -> (
            match words (int_of_string i) with
            | [ "OK"; o ] when o = h -> None
            | [ "OK" ] when h = "-" -> None
            | [ "OK"; "" ] when h = "-" -> None
            | _ -> Some ("operation " ^ i ^ " must render " ^ h ^ ": " ^ get (int_of_string i)))
        | [ "body"; i; h ] -> (
            match body (int_of_string i) with
            | Some b when contains_sub b (unhex h) -> None
            | _ -> Some ("response " ^ i ^ " body must contain " ^ unhex h))
        | [ "nobody"; i; h ] -> (
            match body (int_of_string i) with
            | Some b when not (contains_sub b (unhex h)) -> None
            | Some _ -> Some ("response " ^ i ^ " body must not contain " ^ unhex h)
            | None -> Some ("operation " ^ i ^ " is not a response: " ^ get (int_of_string i)))
        | [ "bodymsg"; i ] -> (
            match body (int_of_string i), err_fields (int_of_string i) with
            | Some b, Some (l, _, m) when contains_sub b m && contains_sub b l -> None
            | _ -> Some ("response " ^ i ^ " body must contain the error message and line"))
        | [ "nobodymsg"; i ] -> (
            match body (int_of_string i), err_fields (int_of_string i) with
            | Some b, Some (_, p, m) when (m = "" || not (contains_sub b m)) && (p = "" || not (contains_sub b p)) -> None
            | Some _, Some _ -> Some ("response " ^ i ^ " body leaks the error message or the file path")
            | _ -> Some ("response " ^ i ^ " is not a failed response"))
        | [ "bodyout"; i; j ] -> (
            match body (int_of_string i), words (int_of_string j) with
            | Some b, [ "OK"; o ] when b = unhex o -> None
            | Some "", [ "OK" ] -> None
            | _ -> Some ("response " ^ i ^ " body must be exactly the output of operation " ^ j))
        | [ "bodyeq"; i; j ] ->
            if body (int_of_string i) = body (int_of_string j) && body (int_of_string i) <> None then None
            else Some ("responses " ^ i ^ " and " ^ j ^ " must have the same body")
        | [ "nopanic" ] ->
            if Array.exists (fun o -> starts_with "PANIC" o) ops then Some "an operation panicked" else None
        | _ -> Some ("unknown constraint " ^ c)
      in
      let cs = List.filter (fun c -> c <> "") (split_on ';' q) in
      match List.filter_map check cs with [] -> "ok" | r :: _ -> "FAIL:" ^ r)
  | _ -> "FAIL:unexpected observation"

let constraints_field (f : string list) : string option =
  List.fold_left (fun acc x -> if starts_with "Q:" x then Some (String.sub x 2 (String.length x - 2)) else acc) None f

(* C15: every concurrent call returned what it returns alone; no worker died (race detector) *)
let oracle_c15 (impl : string) : string =
  match split_on '\t' impl with
  | "CONC" :: _ :: "diff=0" :: _ -> "ok"
  | "CONC" :: _ :: d :: msg :: _ -> "FAIL:concurrent results differ from the sequential baseline (" ^ d ^ "): " ^ unhex msg
  | "CONC" :: "LOADFAIL" :: _ -> "FAIL:the tree did not load"
  | "CRASH" :: _ -> "FAIL:worker process died during the concurrent run (data race reported by the race detector, or a crash)"
  | "HANG" :: _ -> "FAIL:concurrent run did not return"
  | "PANIC" :: _ -> "FAIL:panic during the concurrent run"
  | _ -> "FAIL:unexpected observation"

(* a passing case whose source lies in the domain of the round-trip theorem (Proofs/LexRound.v, decided by the
   extracted in_domain of Spec/LexSpell.v) is reported as "ok:indomain"; check.py counts them into the evidence *)
let in_dom (src : string) (r : string) : string =
  if r = "ok" && String.length src <= 400 && E.in_domain (bytes_of_string src) then "ok:indomain" else r

let oracle (f : string list) (impl : string) : string =
  match f with
  | _ :: "conc" :: _ -> oracle_c15 impl
  | _ ->
  match constraints_field f with
  | Some q -> oracle_constraints q impl
  | None ->
  match f with
  | id :: ("parse" | "lex" | "render") :: src :: _ when starts_with "C08" id -> (
      (* the hypotheses of the rejection theorem (ParseReject.v) must hold for the token stream of the lexer model,
         and its conclusion for the implementation: a stream with an ILLEGAL token is never accepted *)
      match E.lex_all (bytes_of_string (unhex src)) with
      | None -> "FAIL:the lexer model did not return"
      | Some ts ->
          if not (E.tinv ts) then "FAIL:the token stream does not end in EOF or ILLEGAL"
          else if not (E.sok ts) then "FAIL:an ILLEGAL token is followed by an ordinary token (the rejection theorem assumes it is not)"
          else if not (E.eol ts) then "FAIL:an EOF token before the end of the token stream"
          else if List.exists E.illT ts
                  && (match split_on '\t' impl with [ "PARSE"; "OK"; _ ] | "RENDER" :: "OK" :: _ -> true | _ -> false)
          then "FAIL:the token stream holds an ILLEGAL token and the template was accepted"
          else in_dom (unhex src) (oracle_c08 id impl))
  | id :: _ when starts_with "C08" id -> oracle_c08 id impl
  | id :: "render" :: src :: _ when starts_with "C09" id ->
      (* the hypothesis of the never-panics theorem must hold for what the parser model returns *)
      (match E.parse_source (bytes_of_string (unhex src)) with
       | E.ParsedOk p when not (E.wf_program p) ->
           "FAIL:the parsed program is not well-formed (Spec/Wf.v): the never-panics theorem does not cover it"
       | _ -> oracle_c09 impl)
  | id :: _ when starts_with "C09" id -> oracle_c09 impl
  | _ ->
  match expected_field f with
  | Some exp -> (
      let r = oracle_expected exp impl in
      match f with
      | id :: "render" :: src :: _ when starts_with "C05" id -> in_dom (unhex src) r
      | _ -> r)
  | None ->
  match f with
  | id :: "lex" :: src :: _ when starts_with "C19" id -> in_dom (unhex src) (oracle_c19 (unhex src) impl)
  | id :: "lexc" :: src :: _ when starts_with "C19" id -> in_dom (unhex src) (oracle_c19_cursors (unhex src) impl)
  | _ -> "na"
