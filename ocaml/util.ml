(* conversions between OCaml values and the extracted inductives; hex I/O *)
open struct
  type positive = Twmodel_ext.positive = XI of positive | XO of positive | XH
  type n = Twmodel_ext.n = N0 | Npos of positive
  type nat = Twmodel_ext.nat = O | S of nat
  type z = Twmodel_ext.z = Z0 | Zpos of positive | Zneg of positive
end

(* ---------- conversions between OCaml values and the extracted inductives *)

let rec pos_of_int i =
  if i = 1 then XH
  else if i land 1 = 1 then XI (pos_of_int (i lsr 1))
  else XO (pos_of_int (i lsr 1))

let n_of_int i = if i = 0 then N0 else Npos (pos_of_int i)

let rec int_of_pos = function
  | XH -> 1
  | XO p -> 2 * int_of_pos p
  | XI p -> (2 * int_of_pos p) + 1

let int_of_n = function N0 -> 0 | Npos p -> int_of_pos p

let int_of_nat n =
  let rec go acc = function O -> acc | S m -> go (acc + 1) m in
  go 0 n

let nat_of_int i =
  let rec go acc i = if i <= 0 then acc else go (S acc) (i - 1) in
  go O i

let z_of_int i =
  if i = 0 then Z0 else if i > 0 then Zpos (pos_of_int i) else Zneg (pos_of_int (-i))

let bytes_of_string s = List.init (String.length s) (fun i -> n_of_int (Char.code s.[i]))

let string_of_bytes l =
  let b = Buffer.create 64 in
  List.iter (fun c -> Buffer.add_char b (Char.chr (int_of_n c land 255))) l;
  Buffer.contents b

let hexdig = "0123456789abcdef"

let hex s =
  if s = "" then "-"
  else begin
    let b = Buffer.create (2 * String.length s) in
    String.iter
      (fun c ->
        Buffer.add_char b hexdig.[Char.code c lsr 4];
        Buffer.add_char b hexdig.[Char.code c land 15])
      s;
    Buffer.contents b
  end

let unhex s =
  if s = "-" then ""
  else begin
    let v c =
      match c with
      | '0' .. '9' -> Char.code c - 48
      | 'a' .. 'f' -> Char.code c - 87
      | _ -> failwith ("bad hex " ^ s)
    in
    String.init (String.length s / 2) (fun i -> Char.chr ((v s.[2 * i] * 16) + v s.[(2 * i) + 1]))
  end

let hexb l = hex (string_of_bytes l)

let split_tab s = String.split_on_char '\t' s


let starts_with p s = String.length s >= String.length p && String.sub s 0 (String.length p) = p
