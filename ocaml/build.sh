#!/bin/sh
# builds build/ocaml/twmodel from the extracted model + the hand-written driver
set -e
rm -f /verif/build/ocaml/twmodel
B=/verif/build/ocaml
mkdir -p $B
cd $B
coqc -Q /verif/coq/Gen TW -Q /verif/coq/Base TW -Q /verif/coq/Model TW -Q /verif/coq/Spec TW -Q /verif/coq/Extract TW /verif/coq/Extract/Extract.v >/dev/null
cp /verif/ocaml/*.ml $B/
ocamlfind ocamlopt -O3 -w -a -package str twmodel_ext.mli twmodel_ext.ml util.ml model.ml spec.ml oracles.ml driver.ml -o twmodel 2>&1 || \
ocamlfind ocamlopt -w -a twmodel_ext.mli twmodel_ext.ml util.ml model.ml spec.ml oracles.ml driver.ml -o twmodel
