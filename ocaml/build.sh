#!/bin/sh
# builds <verif>/build/ocaml/twmodel from the extracted model + the hand-written driver
set -e
V=$(cd "$(dirname "$0")/.." && pwd)
B=$V/build/ocaml
rm -f $B/twmodel
mkdir -p $B
cd $B
coqc -Q $V/coq/Gen TW -Q $V/coq/Base TW -Q $V/coq/Model TW -Q $V/coq/Spec TW -Q $V/coq/Extract TW $V/coq/Extract/Extract.v >/dev/null
cp $V/ocaml/*.ml $B/
ocamlfind ocamlopt -O3 -w -a -package str twmodel_ext.mli twmodel_ext.ml util.ml model.ml spec.ml oracles.ml driver.ml -o twmodel 2>&1 || \
ocamlfind ocamlopt -w -a twmodel_ext.mli twmodel_ext.ml util.ml model.ml spec.ml oracles.ml driver.ml -o twmodel
