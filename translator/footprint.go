// G8: footprint tables. For every function of the module (non-test, untagged files) the
// package-level variables it assigns, the methods it calls on package-level variables, the
// package-level variables it reads, the fields of ast.* nodes it assigns, and its callees
// (static calls; interface method calls resolved by method name over all types of the module;
// calls through function values resolved to every function whose value is taken somewhere).
// Identifiers are resolved with go/types (source importer; the process must run with cwd = repo).
package main

import (
	"fmt"
	"go/ast"
	"go/importer"
	"go/parser"
	"go/token"
	"go/types"
	"os"
	"path/filepath"
	"sort"
	"strings"
)

const modPath = "github.com/textwire/textwire/v2"

type fnInfo struct {
	name     string
	writes   map[string]bool
	touches  map[string]bool
	reads    map[string]bool
	astw     map[string]bool
	callees  map[string]bool
	dynNames map[string]bool // interface method names called
	indirect map[string]bool // signatures of the function values it calls
}

func short(p string) string {
	p = strings.TrimPrefix(p, modPath)
	p = strings.TrimPrefix(p, "/")
	if p == "" {
		return "textwire"
	}
	return p
}

func funcName(f *types.Func) string {
	sig := f.Type().(*types.Signature)
	pkg := ""
	if f.Pkg() != nil {
		pkg = short(f.Pkg().Path())
	}
	if r := sig.Recv(); r != nil {
		t := r.Type()
		if p, ok := t.(*types.Pointer); ok {
			t = p.Elem()
		}
		if n, ok := t.(*types.Named); ok {
			return pkg + "." + n.Obj().Name() + "." + f.Name()
		}
		return pkg + ".?." + f.Name()
	}
	return pkg + "." + f.Name()
}

// sigOf: parameters and results of a function type, without the receiver, with full package paths
func sigOf(t types.Type) string {
	u := t.Underlying()
	sig, ok := u.(*types.Signature)
	if !ok {
		return "?" + types.TypeString(t, nil)
	}
	return types.TypeString(types.NewSignatureType(nil, nil, nil, sig.Params(), sig.Results(), sig.Variadic()), nil)
}

func inModule(p *types.Package) bool {
	return p != nil && strings.HasPrefix(p.Path(), modPath)
}

func isPkgVar(o types.Object) (string, bool) {
	v, ok := o.(*types.Var)
	if !ok || v.IsField() || v.Pkg() == nil || !inModule(v.Pkg()) {
		return "", false
	}
	if v.Parent() != v.Pkg().Scope() {
		return "", false
	}
	return short(v.Pkg().Path()) + "." + v.Name(), true
}

func rootIdent(e ast.Expr) *ast.Ident {
	for {
		switch x := e.(type) {
		case *ast.Ident:
			return x
		case *ast.SelectorExpr:
			e = x.X
		case *ast.IndexExpr:
			e = x.X
		case *ast.StarExpr:
			e = x.X
		case *ast.ParenExpr:
			e = x.X
		case *ast.SliceExpr:
			e = x.X
		default:
			return nil
		}
	}
}

func hasVerifTag(f *ast.File) bool {
	for _, cg := range f.Comments {
		if cg.Pos() > f.Package {
			break
		}
		for _, c := range cg.List {
			if strings.HasPrefix(c.Text, "//go:build") && strings.Contains(c.Text, "verif") {
				return true
			}
		}
	}
	return false
}

func genFootprint(repo, outdir string) {
	if err := os.Chdir(repo); err != nil {
		die("footprint: chdir: %v", err)
	}
	dirs := []string{".", "ast", "config", "ctx", "evaluator", "fail", "lexer", "object", "parser", "token", "utils"}
	fs2 := token.NewFileSet()
	imp := importer.ForCompiler(fs2, "source", nil)
	fns := map[string]*fnInfo{}
	valueTaken := map[string]string{} // function -> signature (without receiver)
	methodsByName := map[string][]string{}
	var pkgVars []string

	for _, d := range dirs {
		ents, err := os.ReadDir(d)
		if err != nil {
			die("footprint: %v", err)
		}
		var files []*ast.File
		for _, e := range ents {
			n := e.Name()
			if e.IsDir() || !strings.HasSuffix(n, ".go") || strings.HasSuffix(n, "_test.go") {
				continue
			}
			f, err := parser.ParseFile(fs2, filepath.Join(d, n), nil, parser.ParseComments)
			if err != nil {
				die("footprint: parse %s: %v", n, err)
			}
			if hasVerifTag(f) {
				continue
			}
			files = append(files, f)
		}
		if len(files) == 0 {
			continue
		}
		info := &types.Info{Uses: map[*ast.Ident]types.Object{}, Defs: map[*ast.Ident]types.Object{},
			Selections: map[*ast.SelectorExpr]*types.Selection{}, Types: map[ast.Expr]types.TypeAndValue{}}
		pp := modPath
		if d != "." {
			pp = modPath + "/" + d
		}
		conf := types.Config{Importer: imp, Error: func(err error) {}}
		pkg, err := conf.Check(pp, fs2, files, info)
		if err != nil {
			die("footprint: type-check %s: %v", pp, err)
		}
		for _, n := range pkg.Scope().Names() {
			if v, ok := pkg.Scope().Lookup(n).(*types.Var); ok {
				pkgVars = append(pkgVars, short(pkg.Path())+"."+v.Name())
			}
		}

		analyse := func(name string, body ast.Node) {
			fi := fns[name]
			if fi == nil {
				fi = &fnInfo{name: name, writes: map[string]bool{}, touches: map[string]bool{}, reads: map[string]bool{},
					astw: map[string]bool{}, callees: map[string]bool{}, dynNames: map[string]bool{}, indirect: map[string]bool{}}
				fns[name] = fi
			}
			lhsIdents := map[*ast.Ident]bool{}
			callFun := map[ast.Expr]bool{}
			recvIdents := map[*ast.Ident]bool{}
			markWrite := func(lhs ast.Expr) {
				if id := rootIdent(lhs); id != nil {
					if o := info.Uses[id]; o != nil {
						if nm, ok := isPkgVar(o); ok {
							fi.writes[nm] = true
							lhsIdents[id] = true
						}
					}
				}
				// a field of an ast node assigned through a pointer / value
				if se, ok := lhs.(*ast.SelectorExpr); ok {
					if tv, ok := info.Types[se.X]; ok {
						t := tv.Type
						if p, ok := t.(*types.Pointer); ok {
							t = p.Elem()
						}
						if n, ok := t.(*types.Named); ok && n.Obj().Pkg() != nil && n.Obj().Pkg().Path() == modPath+"/ast" {
							fi.astw[n.Obj().Name()+"."+se.Sel.Name] = true
						}
					}
				}
				if ie, ok := lhs.(*ast.IndexExpr); ok {
					// m[k] = v where m is a field of an ast node
					if se, ok := ie.X.(*ast.SelectorExpr); ok {
						if tv, ok := info.Types[se.X]; ok {
							t := tv.Type
							if p, ok := t.(*types.Pointer); ok {
								t = p.Elem()
							}
							if n, ok := t.(*types.Named); ok && n.Obj().Pkg() != nil && n.Obj().Pkg().Path() == modPath+"/ast" {
								fi.astw[n.Obj().Name()+"."+se.Sel.Name+"[]"] = true
							}
						}
					}
				}
			}
			ast.Inspect(body, func(n ast.Node) bool {
				switch x := n.(type) {
				case *ast.AssignStmt:
					if x.Tok != token.DEFINE {
						for _, l := range x.Lhs {
							markWrite(l)
						}
					}
				case *ast.IncDecStmt:
					markWrite(x.X)
				case *ast.UnaryExpr:
					if x.Op == token.AND {
						// &pkgVar: the address escapes; treat as a write (conservative)
						if id := rootIdent(x.X); id != nil {
							if o := info.Uses[id]; o != nil {
								if nm, ok := isPkgVar(o); ok {
									fi.writes["&"+nm] = true
								}
							}
						}
					}
				case *ast.CallExpr:
					callFun[x.Fun] = true
					switch f := x.Fun.(type) {
					case *ast.Ident:
						switch o := info.Uses[f].(type) {
						case *types.Func:
							if inModule(o.Pkg()) {
								fi.callees[funcName(o)] = true
							}
						case *types.Var:
							fi.indirect[sigOf(o.Type())] = true
						}
					case *ast.SelectorExpr:
						if sel, ok := info.Selections[f]; ok {
							switch sel.Kind() {
							case types.MethodVal:
								m := sel.Obj().(*types.Func)
								if id := rootIdent(f.X); id != nil {
									if o := info.Uses[id]; o != nil {
										if nm, ok := isPkgVar(o); ok {
											if _, direct := f.X.(*ast.Ident); direct {
												fi.touches[nm+"."+m.Name()] = true
												recvIdents[id] = true
											}
										}
									}
								}
								if types.IsInterface(sel.Recv()) {
									fi.dynNames[m.Name()] = true
								} else if inModule(m.Pkg()) {
									fi.callees[funcName(m)] = true
								}
							case types.FieldVal:
								fi.indirect[sigOf(sel.Type())] = true
							}
						} else if o, ok := info.Uses[f.Sel].(*types.Func); ok {
							if inModule(o.Pkg()) {
								fi.callees[funcName(o)] = true
							}
						} else if v, ok := info.Uses[f.Sel].(*types.Var); ok {
							fi.indirect[sigOf(v.Type())] = true
						}
					case *ast.FuncLit:
					default:
						if tv, ok := info.Types[x.Fun]; ok && !tv.IsType() {
							fi.indirect[sigOf(tv.Type)] = true
						}
					}
				}
				return true
			})
			// reads and function values
			ast.Inspect(body, func(n ast.Node) bool {
				switch x := n.(type) {
				case *ast.Ident:
					o := info.Uses[x]
					if o == nil {
						return true
					}
					if nm, ok := isPkgVar(o); ok && !lhsIdents[x] && !recvIdents[x] {
						fi.reads[nm] = true
					}
					if f, ok := o.(*types.Func); ok && inModule(f.Pkg()) && !callFun[ast.Expr(x)] {
						valueTaken[funcName(f)] = sigOf(f.Type())
					}
				case *ast.SelectorExpr:
					if callFun[ast.Expr(x)] {
						// still visit x.X
						ast.Inspect(x.X, func(m ast.Node) bool {
							if id, ok := m.(*ast.Ident); ok {
								if o := info.Uses[id]; o != nil {
									if nm, ok := isPkgVar(o); ok && !lhsIdents[id] && !recvIdents[id] {
										fi.reads[nm] = true
									}
								}
							}
							return true
						})
						return false
					}
					if sel, ok := info.Selections[x]; ok && sel.Kind() == types.MethodVal {
						if m := sel.Obj().(*types.Func); inModule(m.Pkg()) {
							valueTaken[funcName(m)] = sigOf(m.Type())
						}
					} else if f, ok := info.Uses[x.Sel].(*types.Func); ok && inModule(f.Pkg()) {
						valueTaken[funcName(f)] = sigOf(f.Type())
						return false
					}
				}
				return true
			})
		}

		for _, f := range files {
			for _, dcl := range f.Decls {
				switch x := dcl.(type) {
				case *ast.FuncDecl:
					if x.Body == nil {
						continue
					}
					o, _ := info.Defs[x.Name].(*types.Func)
					if o == nil {
						continue
					}
					name := funcName(o)
					if sig := o.Type().(*types.Signature); sig.Recv() != nil {
						methodsByName[o.Name()] = append(methodsByName[o.Name()], name)
					}
					analyse(name, x.Body)
				case *ast.GenDecl:
					if x.Tok == token.VAR {
						// initialisers run at package initialisation; function values in tables are "taken"
						analyse(short(pp)+".<init>", x)
					}
				}
			}
		}
	}

	// resolve dynamic and indirect calls
	var taken []string
	for k := range valueTaken {
		if _, ok := fns[k]; ok {
			taken = append(taken, k)
		}
	}
	sort.Strings(taken)
	for _, fi := range fns {
		for m := range fi.dynNames {
			for _, c := range methodsByName[m] {
				fi.callees[c] = true
			}
		}
		for _, c := range taken {
			if fi.indirect[valueTaken[c]] {
				fi.callees[c] = true
			}
		}
	}

	var names []string
	for k := range fns {
		names = append(names, k)
	}
	sort.Strings(names)
	index := map[string]int{}
	for i, n := range names {
		index[n] = i
	}
	keys := func(m map[string]bool) string {
		var l []string
		for k := range m {
			l = append(l, k)
		}
		sort.Strings(l)
		for i := range l {
			l[i] = coqStr(l[i])
		}
		return "[" + strings.Join(l, "; ") + "]"
	}
	idxs := func(m map[string]bool) string {
		var l []int
		for k := range m {
			if j, ok := index[k]; ok {
				l = append(l, j)
			}
		}
		sort.Ints(l)
		var ss []string
		for _, j := range l {
			ss = append(ss, fmt.Sprintf("%d", j))
		}
		return "[" + strings.Join(ss, "; ") + "]"
	}
	sort.Strings(pkgVars)
	var o out
	o.f("(* GENERATED by /verif/translator (footprint.go) from all non-test .go files of the module. Do not edit.\n")
	o.f("   Per function: package-level variables assigned; methods called on package-level variables;\n")
	o.f("   package-level variables read; ast node fields assigned; callees as indices into fn_names (static +\n")
	o.f("   interface methods by name + every function whose value is taken, for calls through function values). *)\n")
	o.f("From Coq Require Import String List NArith.\nImport ListNotations.\nLocal Open Scope string_scope.\nLocal Open Scope N_scope.\n\n")
	for i := range pkgVars {
		pkgVars[i] = coqStr(pkgVars[i])
	}
	o.f("Definition pkg_vars : list string :=\n  [%s].\n\n", strings.Join(pkgVars, "; "))
	o.f("Record fn_fp := mkFp { fp_writes : list string; fp_touches : list string; fp_reads : list string;\n")
	o.f("                       fp_astw : list string; fp_callees : list N }.\n\n")
	o.f("Definition fn_names : list string :=\n  [")
	for i, n := range names {
		if i > 0 {
			o.f(";\n   ")
		}
		o.f("%s", coqStr(n))
	}
	o.f("].\n\n")
	o.f("Definition fn_table : list fn_fp :=\n  [")
	for i, n := range names {
		fi := fns[n]
		if i > 0 {
			o.f(";\n   ")
		}
		o.f("(* %d %s *) mkFp %s %s %s %s\n      %s", i, n, keys(fi.writes), keys(fi.touches), keys(fi.reads), keys(fi.astw), idxs(fi.callees))
	}
	o.f("].\n")
	writeIfChanged(filepath.Join(outdir, "GenFootprint.v"), o.sb.String())
}
