// translator reads the table-like facts of /repo's *working tree* with go/ast
// and writes them as Coq definitions (coq/Gen/*.v). It refuses (exit 1) when a
// construct no longer has the syntactic shape it knows; it never guesses.
//
//	translator <repo> <outdir>
package main

import (
	"fmt"
	"go/ast"
	"go/parser"
	"go/token"
	"os"
	"path/filepath"
	"sort"
	"strconv"
	"strings"
)

func die(format string, a ...any) {
	fmt.Fprintf(os.Stderr, "translator: refuse: "+format+"\n", a...)
	os.Exit(1)
}

var fset = token.NewFileSet()

func parseFile(path string) *ast.File {
	f, err := parser.ParseFile(fset, path, nil, 0)
	if err != nil {
		die("cannot parse %s: %v", path, err)
	}
	return f
}

// iotaBlock returns the names of the first const block that uses iota.
func iotaBlock(f *ast.File, file string) []string {
	for _, d := range f.Decls {
		gd, ok := d.(*ast.GenDecl)
		if !ok || gd.Tok != token.CONST {
			continue
		}
		uses := false
		ast.Inspect(gd, func(n ast.Node) bool {
			if id, ok := n.(*ast.Ident); ok && id.Name == "iota" {
				uses = true
			}
			return true
		})
		if !uses {
			continue
		}
		var names []string
		for i, s := range gd.Specs {
			vs := s.(*ast.ValueSpec)
			if len(vs.Names) != 1 {
				die("%s: iota block: several names in one spec", file)
			}
			if i > 0 && len(vs.Values) != 0 {
				die("%s: iota block: explicit value for %s", file, vs.Names[0].Name)
			}
			if i == 0 {
				if len(vs.Values) != 1 {
					die("%s: iota block: first spec has no value", file)
				}
				if id, ok := vs.Values[0].(*ast.Ident); !ok || id.Name != "iota" {
					die("%s: iota block: first value is not plain iota", file)
				}
			}
			names = append(names, vs.Names[0].Name)
		}
		return names
	}
	die("%s: no iota const block", file)
	return nil
}

func findVar(f *ast.File, name, file string) ast.Expr {
	for _, d := range f.Decls {
		gd, ok := d.(*ast.GenDecl)
		if !ok || gd.Tok != token.VAR {
			continue
		}
		for _, s := range gd.Specs {
			vs := s.(*ast.ValueSpec)
			for i, n := range vs.Names {
				if n.Name == name {
					if i >= len(vs.Values) {
						die("%s: var %s has no initialiser", file, name)
					}
					return vs.Values[i]
				}
			}
		}
	}
	die("%s: var %s not found", file, name)
	return nil
}

func findFunc(f *ast.File, name, file string) *ast.FuncDecl {
	for _, d := range f.Decls {
		if fd, ok := d.(*ast.FuncDecl); ok && fd.Name.Name == name {
			return fd
		}
	}
	die("%s: func %s not found", file, name)
	return nil
}

func strLit(e ast.Expr, ctx string) string {
	bl, ok := e.(*ast.BasicLit)
	if !ok || bl.Kind != token.STRING {
		die("%s: expected string literal", ctx)
	}
	s, err := strconv.Unquote(bl.Value)
	if err != nil {
		die("%s: bad string literal", ctx)
	}
	return s
}

func charLit(e ast.Expr, ctx string) int {
	bl, ok := e.(*ast.BasicLit)
	if !ok || bl.Kind != token.CHAR {
		die("%s: expected char literal", ctx)
	}
	s, err := strconv.Unquote(bl.Value)
	if err != nil || len(s) != 1 {
		die("%s: bad char literal", ctx)
	}
	return int(s[0])
}

// identName accepts X or pkg.X and returns X.
func identName(e ast.Expr, ctx string) string {
	switch x := e.(type) {
	case *ast.Ident:
		return x.Name
	case *ast.SelectorExpr:
		return x.Sel.Name
	}
	die("%s: expected identifier", ctx)
	return ""
}

type kv struct{ k, v string }

func mapLit(e ast.Expr, ctx string, key func(ast.Expr) string, val func(ast.Expr) string) []kv {
	cl, ok := e.(*ast.CompositeLit)
	if !ok {
		die("%s: expected composite literal", ctx)
	}
	var out []kv
	for _, el := range cl.Elts {
		p, ok := el.(*ast.KeyValueExpr)
		if !ok {
			die("%s: expected key: value", ctx)
		}
		out = append(out, kv{key(p.Key), val(p.Value)})
	}
	return out
}

func coqStr(s string) string {
	for _, c := range []byte(s) {
		if c < 32 || c > 126 {
			die("non-printable byte in table string %q", s)
		}
	}
	return "\"" + strings.ReplaceAll(s, "\"", "\"\"") + "\""
}

type out struct {
	sb strings.Builder
}

func (o *out) f(format string, a ...any) { fmt.Fprintf(&o.sb, format, a...) }

func writeIfChanged(path, content string) {
	old, err := os.ReadFile(path)
	if err == nil && string(old) == content {
		return
	}
	if err := os.WriteFile(path, []byte(content), 0o644); err != nil {
		die("cannot write %s: %v", path, err)
	}
}

func main() {
	if len(os.Args) != 3 {
		fmt.Fprintln(os.Stderr, "usage: translator <repo> <outdir>")
		os.Exit(2)
	}
	repo, outdir := os.Args[1], os.Args[2]
	os.MkdirAll(outdir, 0o755)

	genToken(repo, outdir)
	genParser(repo, outdir)
	genFuncs(repo, outdir)
	genMisc(repo, outdir)
}

// ---------------------------------------------------------------- G1 G2 G3

func genToken(repo, outdir string) {
	tf := parseFile(filepath.Join(repo, "token/token.go"))
	toks := iotaBlock(tf, "token/token.go")
	known := map[string]bool{}
	for _, t := range toks {
		known[t] = true
	}
	chk := func(t, ctx string) string {
		if !known[t] {
			die("%s: %s is not a token type", ctx, t)
		}
		return "T_" + t
	}

	keywords := mapLit(findVar(tf, "keywords", "token/token.go"), "keywords",
		func(e ast.Expr) string { return strLit(e, "keywords key") },
		func(e ast.Expr) string { return chk(identName(e, "keywords value"), "keywords") })
	directives := mapLit(findVar(tf, "directives", "token/token.go"), "directives",
		func(e ast.Expr) string { return strLit(e, "directives key") },
		func(e ast.Expr) string { return chk(identName(e, "directives value"), "directives") })

	uf := parseFile(filepath.Join(repo, "token/utils.go"))
	names := mapLit(findVar(uf, "tokens", "token/utils.go"), "tokens",
		func(e ast.Expr) string { return chk(identName(e, "tokens key"), "tokens") },
		func(e ast.Expr) string { return strLit(e, "tokens value") })
	// the array literal [...]string has length max index + 1
	idx := map[string]int{}
	for i, t := range toks {
		idx["T_"+t] = i
	}
	arrLen := 0
	for _, p := range names {
		if idx[p.k]+1 > arrLen {
			arrLen = idx[p.k] + 1
		}
	}

	lf := parseFile(filepath.Join(repo, "lexer/lexer.go"))
	simple := mapLit(findVar(lf, "simpleTokens", "lexer/lexer.go"), "simpleTokens",
		func(e ast.Expr) string { return strconv.Itoa(charLit(e, "simpleTokens key")) },
		func(e ast.Expr) string { return chk(identName(e, "simpleTokens value"), "simpleTokens") })
	boolSet := func(name string) []string {
		m := mapLit(findVar(lf, name, "lexer/lexer.go"), name,
			func(e ast.Expr) string { return chk(identName(e, name+" key"), name) },
			func(e ast.Expr) string {
				if id, ok := e.(*ast.Ident); !ok || id.Name != "true" {
					die("%s: value is not true", name)
				}
				return "true"
			})
		var r []string
		for _, p := range m {
			r = append(r, p.k)
		}
		sort.Strings(r)
		return r
	}
	noParens := boolSet("tokensWithoutParens")
	optParens := boolSet("tokensWithOptionalParens")

	sort.Slice(keywords, func(i, j int) bool { return keywords[i].k < keywords[j].k })
	sort.Slice(directives, func(i, j int) bool { return directives[i].k < directives[j].k })
	sort.Slice(simple, func(i, j int) bool {
		a, _ := strconv.Atoi(simple[i].k)
		b, _ := strconv.Atoi(simple[j].k)
		return a < b
	})

	var o out
	o.f("(* GENERATED by /verif/translator from token/token.go, token/utils.go, lexer/lexer.go. Do not edit. *)\n")
	o.f("From Coq Require Import String List NArith.\nImport ListNotations.\nOpen Scope string_scope.\n\n")
	o.f("Inductive tok : Set :=\n")
	for i := range toks {
		toks[i] = "T_" + toks[i]
	}
	for _, t := range toks {
		o.f("| %s\n", t)
	}
	o.f(".\n\n")
	o.f("Definition tok_index (t : tok) : nat :=\n  match t with\n")
	for i, t := range toks {
		o.f("  | %s => %d\n", t, i)
	}
	o.f("  end.\n\n")
	o.f("Definition all_toks : list tok :=\n  [%s].\n\n", strings.Join(toks, "; "))
	pr := func(name string, m []kv) {
		o.f("Definition %s : list (string * tok) :=\n  [", name)
		for i, p := range m {
			if i > 0 {
				o.f(";\n   ")
			}
			o.f("(%s, %s)", coqStr(p.k), p.v)
		}
		o.f("].\n\n")
	}
	pr("keywords", keywords)
	pr("directives", directives)
	o.f("(* token.String indexes this table; its Go array has length %d *)\n", arrLen)
	o.f("Definition token_names_len : nat := %d.\n", arrLen)
	o.f("Definition token_names : list (tok * string) :=\n  [")
	for i, p := range names {
		if i > 0 {
			o.f(";\n   ")
		}
		o.f("(%s, %s)", p.k, coqStr(p.v))
	}
	o.f("].\n\n")
	o.f("Definition simple_tokens : list (N * tok) :=\n  [")
	for i, p := range simple {
		if i > 0 {
			o.f("; ")
		}
		o.f("(%s%%N, %s)", p.k, p.v)
	}
	o.f("].\n\n")
	o.f("Definition tokens_without_parens : list tok := [%s].\n", strings.Join(noParens, "; "))
	o.f("Definition tokens_with_optional_parens : list tok := [%s].\n", strings.Join(optParens, "; "))
	writeIfChanged(filepath.Join(outdir, "GenToken.v"), o.sb.String())
}

// ---------------------------------------------------------------- G4

// precArg renders the argument of a parseExpression(...) call.
func precArg(e ast.Expr, fn string) string {
	switch x := e.(type) {
	case *ast.Ident:
		// a constant, or a local variable holding curPrecedence()
		return x.Name
	case *ast.CallExpr:
		return identName(x.Fun, fn) + "()"
	}
	die("parser.go:%s: unknown parseExpression argument shape", fn)
	return ""
}

func tokenArgs(call *ast.CallExpr, ctx string) []string {
	var r []string
	for _, a := range call.Args {
		r = append(r, "T_"+identName(a, ctx))
	}
	return r
}

func genParser(repo, outdir string) {
	pf := parseFile(filepath.Join(repo, "parser/parser.go"))
	consts := iotaBlock(pf, "parser/parser.go")
	if len(consts) == 0 || consts[0] != "_" {
		die("parser.go: precedence block does not start with _")
	}

	precs := mapLit(findVar(pf, "precedences", "parser/parser.go"), "precedences",
		func(e ast.Expr) string { return "T_" + identName(e, "precedences key") },
		func(e ast.Expr) string { return identName(e, "precedences value") })

	// registrations in New
	var prefix, infix []kv
	ast.Inspect(findFunc(pf, "New", "parser.go"), func(n ast.Node) bool {
		c, ok := n.(*ast.CallExpr)
		if !ok {
			return true
		}
		sel, ok := c.Fun.(*ast.SelectorExpr)
		if !ok || (sel.Sel.Name != "registerPrefix" && sel.Sel.Name != "registerInfix") {
			return true
		}
		if len(c.Args) != 2 {
			die("parser.go:New: register call with %d args", len(c.Args))
		}
		p := kv{"T_" + identName(c.Args[0], "register"), identName(c.Args[1], "register")}
		if sel.Sel.Name == "registerPrefix" {
			prefix = append(prefix, p)
		} else {
			infix = append(infix, p)
		}
		return true
	})

	// precedence argument of every parseExpression call, per function, in source order;
	// for a local variable the defining call is resolved one step.
	type site struct{ fn, arg string }
	var sites []site
	for _, d := range pf.Decls {
		fd, ok := d.(*ast.FuncDecl)
		if !ok || fd.Body == nil {
			continue
		}
		locals := map[string]string{}
		ast.Inspect(fd.Body, func(n ast.Node) bool {
			switch x := n.(type) {
			case *ast.AssignStmt:
				if len(x.Lhs) == 1 && len(x.Rhs) == 1 {
					if id, ok := x.Lhs[0].(*ast.Ident); ok {
						if c, ok := x.Rhs[0].(*ast.CallExpr); ok {
							if s, ok := c.Fun.(*ast.SelectorExpr); ok && len(c.Args) == 0 {
								locals[id.Name] = s.Sel.Name + "()"
							}
						}
					}
				}
			case *ast.CallExpr:
				if s, ok := x.Fun.(*ast.SelectorExpr); ok && s.Sel.Name == "parseExpression" {
					if len(x.Args) != 1 {
						die("parser.go:%s: parseExpression with %d args", fd.Name.Name, len(x.Args))
					}
					a := precArg(x.Args[0], fd.Name.Name)
					if v, ok := locals[a]; ok {
						a = v
					}
					sites = append(sites, site{fd.Name.Name, a})
				}
			}
			return true
		})
	}

	// stop tokens of the Pratt loop: first peekTokenIs(...) call in parseExpression's for condition
	var stop []string
	pe := findFunc(pf, "parseExpression", "parser.go")
	ast.Inspect(pe, func(n ast.Node) bool {
		fs, ok := n.(*ast.ForStmt)
		if !ok || stop != nil {
			return true
		}
		ast.Inspect(fs.Cond, func(m ast.Node) bool {
			if c, ok := m.(*ast.CallExpr); ok {
				if s, ok := c.Fun.(*ast.SelectorExpr); ok && s.Sel.Name == "peekTokenIs" {
					stop = tokenArgs(c, "parseExpression stop")
				}
			}
			return true
		})
		return true
	})
	if stop == nil {
		die("parser.go:parseExpression: loop condition not recognised")
	}

	// parseBlockStmt: tokens in the loop guard (curTokenIs) and in the break test (peekTokenIs)
	var blockGuard, blockBreak []string
	pb := findFunc(pf, "parseBlockStmt", "parser.go")
	ast.Inspect(pb, func(n ast.Node) bool {
		c, ok := n.(*ast.CallExpr)
		if !ok {
			return true
		}
		s, ok := c.Fun.(*ast.SelectorExpr)
		if !ok {
			return true
		}
		if s.Sel.Name == "curTokenIs" {
			blockGuard = append(blockGuard, tokenArgs(c, "parseBlockStmt")...)
		}
		if s.Sel.Name == "peekTokenIs" {
			blockBreak = append(blockBreak, tokenArgs(c, "parseBlockStmt")...)
		}
		return true
	})

	// statement dispatch: case token.X: return p.parseY() in parseStatement
	var dispatch []kv
	ps := findFunc(pf, "parseStatement", "parser.go")
	ast.Inspect(ps, func(n ast.Node) bool {
		cc, ok := n.(*ast.CaseClause)
		if !ok || len(cc.List) == 0 {
			return true
		}
		target := "?"
		if len(cc.Body) == 1 {
			if r, ok := cc.Body[0].(*ast.ReturnStmt); ok && len(r.Results) == 1 {
				switch x := r.Results[0].(type) {
				case *ast.CallExpr:
					target = identName(x.Fun, "dispatch")
				case *ast.UnaryExpr:
					if cl, ok := x.X.(*ast.CompositeLit); ok {
						target = "&" + identName(cl.Type, "dispatch")
					}
				}
			}
		}
		if target == "?" {
			die("parser.go:parseStatement: case body not recognised")
		}
		for _, e := range cc.List {
			dispatch = append(dispatch, kv{"T_" + identName(e, "dispatch"), target})
		}
		return true
	})

	var o out
	o.f("(* GENERATED by /verif/translator from parser/parser.go. Do not edit. *)\n")
	o.f("From Coq Require Import String List.\nFrom TW Require Import GenToken.\nImport ListNotations.\nOpen Scope string_scope.\n\n")
	for i, c := range consts {
		if c == "_" {
			continue
		}
		o.f("Definition P_%s : nat := %d.\n", c, i)
	}
	o.f("\nDefinition precedences : list (tok * nat) :=\n  [")
	for i, p := range precs {
		if i > 0 {
			o.f(";\n   ")
		}
		o.f("(%s, P_%s)", p.k, p.v)
	}
	o.f("].\n\n")
	prk := func(name string, m []kv) {
		o.f("Definition %s : list (tok * string) :=\n  [", name)
		for i, p := range m {
			if i > 0 {
				o.f(";\n   ")
			}
			o.f("(%s, %s)", p.k, coqStr(p.v))
		}
		o.f("].\n\n")
	}
	prk("prefix_fns", prefix)
	prk("infix_fns", infix)
	prk("stmt_dispatch", dispatch)
	o.f("Definition parse_expression_sites : list (string * string) :=\n  [")
	for i, s := range sites {
		if i > 0 {
			o.f(";\n   ")
		}
		o.f("(%s, %s)", coqStr(s.fn), coqStr(s.arg))
	}
	o.f("].\n\n")
	o.f("Definition expr_stop_tokens : list tok := [%s].\n", strings.Join(stop, "; "))
	o.f("Definition block_guard_tokens : list tok := [%s].\n", strings.Join(blockGuard, "; "))
	o.f("Definition block_break_tokens : list tok := [%s].\n", strings.Join(blockBreak, "; "))
	writeIfChanged(filepath.Join(outdir, "GenParser.v"), o.sb.String())
}

// ---------------------------------------------------------------- G5

func genFuncs(repo, outdir string) {
	ff := parseFile(filepath.Join(repo, "evaluator/func.go"))
	cl, ok := findVar(ff, "functions", "evaluator/func.go").(*ast.CompositeLit)
	if !ok {
		die("func.go: functions is not a composite literal")
	}
	var o out
	o.f("(* GENERATED by /verif/translator from evaluator/func.go. Do not edit. *)\n")
	o.f("From Coq Require Import String List.\nImport ListNotations.\nOpen Scope string_scope.\n\n")
	o.f("Definition builtin_names : list (string * list string) :=\n  [")
	for i, el := range cl.Elts {
		p, ok := el.(*ast.KeyValueExpr)
		if !ok {
			die("func.go: expected key: value")
		}
		ty := identName(p.Key, "functions key")
		inner, ok := p.Value.(*ast.CompositeLit)
		if !ok {
			die("func.go: inner literal")
		}
		var names []string
		for _, e2 := range inner.Elts {
			p2, ok := e2.(*ast.KeyValueExpr)
			if !ok {
				die("func.go: inner key: value")
			}
			names = append(names, coqStr(strLit(p2.Key, "function name")))
		}
		sort.Strings(names)
		if i > 0 {
			o.f(";\n   ")
		}
		o.f("(%s, [%s])", coqStr(ty), strings.Join(names, "; "))
	}
	o.f("].\n")
	writeIfChanged(filepath.Join(outdir, "GenFuncs.v"), o.sb.String())
}

// ---------------------------------------------------------------- G7 and small facts

func genMisc(repo, outdir string) {
	page, err := os.ReadFile(filepath.Join(repo, "textwire/default-error-page.tw"))
	if err != nil {
		die("cannot read default error page: %v", err)
	}
	var o out
	o.f("(* GENERATED by /verif/translator from textwire/default-error-page.tw. Do not edit. *)\n")
	o.f("From Coq Require Import List NArith.\nImport ListNotations.\nOpen Scope N_scope.\n\n")
	o.f("Definition default_error_page : list N :=\n  [")
	for i, b := range page {
		if i > 0 {
			o.f(";")
			if i%32 == 0 {
				o.f("\n   ")
			}
		}
		o.f("%d", b)
	}
	o.f("].\n")
	writeIfChanged(filepath.Join(outdir, "GenMisc.v"), o.sb.String())
}
