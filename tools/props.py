"""Per-property case generators and metadata for tools/check.py.

Every generator derives all random choices from the rng it is given (seeded by
VERIF_SEED) and returns (case_lines, meta) where meta carries the input
distribution written to the evidence file."""
import binascii, itertools, struct, collections


def hx(b):
    if isinstance(b, str):
        b = b.encode("utf-8", "surrogateescape")
    return binascii.hexlify(b).decode() if b else "-"


class Prop:
    timeout_ms = 3000
    rule = ""
    explanation = ""
    assumptions = []
    trusted_extra = []

    def generate(self, rng, tier):
        raise NotImplementedError

    def classify(self, r, known):
        """returns the open known finding that explains oracle failure r, or None"""
        for k in known:
            m = k.get("match")
            if m and m in r["oracle"]:
                f = r["case"].split("\t")
                wit = k.get("witness_hex")
                if wit is None or any(wit in x for x in f[2:]):
                    return k
        return None

    def nontrivial(self, r):
        return True


LEXEMES = [b"{{", b"}}", b"{", b"}", b"(", b")", b"[", b"]", b"@if", b"@else", b"@elseif", b"@end", b"@each", b"@for",
           b"@break", b"@breakIf", b"@continue", b"@continueIf", b"@slot", b"@component", b"@insert", b"@reserve",
           b"@use", b"@dump", b"\\", b"\\{{", b"\\@if", b"--", b"{{--", b"--}}", b"-", b"+", b"++", b"=", b"==", b"!=",
           b"!", b"<", b"<=", b">", b">=", b"*", b"/", b"%", b"?", b":", b",", b".", b";", b"\"", b"'", b"\\\"", b"x",
           b"ab_1", b"true", b"false", b"nil", b"in", b"12", b"3.5", b"1.", b" ", b"\n", b"\r\n", b"\t",
           b"\xc3\xa9", b"#", b"@", b"if", b"I", b"f", b"<p>", b"text", b"e", b"n", b"d"]


def distribution(cases):
    d = collections.Counter()
    for c in cases:
        n = len(c)
        d["len<=4" if n <= 4 else "len<=16" if n <= 16 else "len<=64" if n <= 64 else "len>64"] += 1
    return dict(d)


class C19(Prop):
    rule = ("byte strings: (a) exhaustive over the 13-symbol alphabet { @ \\ { } - \" ( LF e n d SP x } up to length "
            "4 (quick) / 6 (thorough); (b) random concatenations of 1..20 lexemes from the 76-lexeme alphabet "
            "(every token spelling, directives, escapes, comment open/close, quotes, CRLF, UTF-8). NUL bytes are "
            "excluded (the lexer treats NUL as end of input; outside the property's alphabet). A case is "
            "non-trivial when it yields at least two tokens; distinct = distinct source strings.")
    explanation = ("Theorems: the lexer's per-character counters equal the pure position function lc at every "
                   "reachable offset (invariant by induction over readChar), every fixed-width token and the EOF "
                   "token carry exactly lc(start)/lc(end); the executable table used by the oracle equals lc. "
                   "Correspondence: lexer model = implementation on every generated input (full token list with "
                   "positions). Oracle: extracted check_tokens (ordered, disjoint, own text, blank gaps, EOF at end) "
                   "applied to the implementation's tokens.")
    assumptions = ["inputs contain no NUL byte", "positions are compared as (line, byte column), zero-based"]

    ALPHA = [b"@", b"\\", b"{", b"}", b"-", b"\"", b"(", b"\n", b"e", b"n", b"d", b" ", b"x"]

    def generate(self, rng, tier):
        srcs = []
        maxlen = {"quick": 4, "thorough": 6, "search": 3}[tier]
        for n in range(0, maxlen + 1):
            for t in itertools.product(self.ALPHA, repeat=n):
                srcs.append(b"".join(t))
        nrand = {"quick": 20000, "thorough": 300000, "search": 60000}[tier]
        for _ in range(nrand):
            k = rng.choice([1, 2, 3, 4, 5, 6, 8, 12, 20])
            srcs.append(b"".join(rng.choice(LEXEMES) for _ in range(k)))
        lines = ["C19:%d\tlex\t%s" % (i, hx(s)) for i, s in enumerate(srcs)]
        return lines, {"exhaustive": False, "distribution": distribution(srcs),
                       "exhaustive_part": "all strings over 13 symbols up to length %d" % maxlen}

    def nontrivial(self, r):
        return r["impl"].count(";") >= 1


PROPS = {
    "C19": C19(),
}


# ----------------------------------------------------------------------------- C01

def f64bits(x):
    return "%016x" % struct.unpack(">Q", struct.pack(">d", x))[0]


class C01(Prop):
    rule = ("specification expression trees, printed by the extracted Coq printer with a layout (separators from "
            "{SP, LF, TAB, SP SP, CRLF, ...}, random redundant parentheses) and evaluated by the extracted semantics: "
            "(a) every ordered pair of the 19 operator forms (11 binary, ternary, 2 prefix, 2 postfix, index, property, "
            "call) in every operand slot; (b) triples: all chains and forks (thorough) or a seeded sample (quick); "
            "(c) random typed trees to depth 5; (d) the same trees as the right-hand side of an assignment; "
            "(e) integer boundary operands and out-of-range literals. Non-trivial: at least two operators; "
            "distinct = distinct rendered source + data.")
    explanation = ("Theorems: Go's binding-power table read from parser.go is a strictly monotone image of the "
                   "property's levels; the Pratt parser model parses the printer's output back to the tree "
                   "(round-trip, for the binary/prefix/ternary/parenthesis fragment with any redundant parentheses); "
                   "wrap64/quot/rem facts. Correspondence: model = implementation on every case. Oracle: "
                   "implementation output = text of sem(tree), error iff sem says error.")
    assumptions = ["floats are dyadic rationals with short decimal expansions (others are counted as unmodelled)",
                   "the meaning of built-in calls inside expressions is taken from the built-in model (C11's subject)"]

    BIN = ["add", "sub", "mul", "div", "mod", "eq", "ne", "lt", "gt", "le", "ge"]
    FORMS = BIN + ["tern", "neg", "not", "inc", "dec", "idx", "prop", "call"]
    DATA = {
        "x": "(int 7)", "y": "(int 2)", "z": "(int 3)", "w": "(int 0)",
        "big": "(int 9223372036854775807)", "small": "(int -9223372036854775808)",
        "f": "(f64 %s)" % f64bits(1.5), "g": "(f64 %s)" % f64bits(0.25), "h": "(f64 %s)" % f64bits(-2.0),
        "s": "(str %s)" % hx("ab"), "t": "(str %s)" % hx(""), "b": "(bool 1)", "c": "(bool 0)", "n": "(nil)",
        "a": "(slice (int 5) (int 6) (int 7))", "e": "(slice)",
        "o": "(map (%s (int 4)) (%s (str %s)))" % (hx("k"), hx("Name"), hx("bob")),
    }

    def data(self):
        return "(" + " ".join("(%s %s)" % (hx(k), v) for k, v in self.DATA.items()) + ")"

    def nslots(self, f):
        return 2 if f in self.BIN or f == "idx" else 3 if f == "tern" else 1

    def leaf(self, rng, f, slot):
        ints = ["(int 7)", "(int 2)", "(int 3)", "(var x)", "(var y)", "(var z)", "(int 1)"]
        if f == "not":
            return rng.choice(["(bool 1)", "(bool 0)", "(var b)", "(nil)"])
        if f == "idx" and slot == 0:
            return rng.choice(["(var a)", "(arr (int 5) (int 6) (int 7))"])
        if f == "idx" and slot == 1:
            return rng.choice(["(int 0)", "(int 1)", "(int 2)", "(var y)"])
        if f == "prop":
            return "(var o)"
        if f == "call":
            return rng.choice(["(var s)", "(var a)", "(var x)"])
        if f == "tern" and slot == 0:
            return rng.choice(["(bool 1)", "(bool 0)", "(var w)", "(var x)", "(var t)"])
        return rng.choice(ints)

    def build(self, f, kids):
        if f in self.BIN:
            return "(bin %s %s %s)" % (f, kids[0], kids[1])
        if f == "tern":
            return "(tern %s %s %s)" % tuple(kids)
        if f in ("neg", "not", "inc", "dec"):
            return "(%s %s)" % (f, kids[0])
        if f == "idx":
            return "(idx %s %s)" % (kids[0], kids[1])
        if f == "prop":
            return "(prop %s k)" % kids[0]
        if f == "call":
            return "(call %s %s)" % (kids[0], "len" if "s)" in kids[0] or "a)" in kids[0] or "arr" in kids[0] else "abs")
        raise ValueError(f)

    def tree(self, rng, forms_at):
        """forms_at: nested spec (form, {slot: subtree-spec})"""
        f, sub = forms_at
        kids = []
        for s in range(self.nslots(f)):
            if s in sub:
                kids.append(self.tree(rng, sub[s]))
            else:
                kids.append(self.leaf(rng, f, s))
        return self.build(f, kids)

    def rand_tree(self, rng, d, ty):
        r = rng.random()
        if d <= 0 or r < 0.25:
            return {"int": rng.choice(["(int 7)", "(int 2)", "(int 3)", "(int 0)", "(int 1)", "(var x)", "(var y)", "(var big)",
                                       "(var small)", "(int 9223372036854775807)", "(var w)"]),
                    "float": rng.choice(["(float 15 1)", "(float 25 2)", "(float 20 1)", "(var f)", "(var g)", "(var h)", "(float 5 1)"]),
                    "str": rng.choice(["(str %s 1)" % hx("a<b"), "(str %s 0)" % hx("it's"), "(var s)", "(var t)", "(str %s 1)" % hx("q\"x"),
                                       "(str - 1)", "(str %s 0)" % hx("h\xc3\xa9&"), ]),
                    "bool": rng.choice(["(bool 1)", "(bool 0)", "(var b)", "(var c)", "(nil)", "(var n)"]),
                    "any": rng.choice(["(int 4)", "(var x)", "(var s)", "(var f)", "(var b)", "(var a)", "(var o)", "(nil)", "(var nope)"])}[ty]
        sub = lambda t: self.rand_tree(rng, d - 1, t)
        if ty == "int":
            k = rng.random()
            if k < 0.55:
                return "(bin %s %s %s)" % (rng.choice(["add", "sub", "mul", "div", "mod"]), sub("int"), sub("int"))
            if k < 0.65:
                return "(neg %s)" % sub("int")
            if k < 0.75:
                return "(%s %s)" % (rng.choice(["inc", "dec"]), sub("int"))
            if k < 0.85:
                return "(tern %s %s %s)" % (sub(rng.choice(["bool", "int", "str", "float"])), sub("int"), sub("int"))
            if k < 0.9:
                return "(idx (var a) %s)" % sub("int")
            if k < 0.95:
                return "(prop (var o) k)"
            return "(call %s len)" % sub("str")
        if ty == "float":
            k = rng.random()
            if k < 0.6:
                return "(bin %s %s %s)" % (rng.choice(["add", "sub", "mul"]), sub("float"), sub("float"))
            if k < 0.7:
                return "(neg %s)" % sub("float")
            if k < 0.8:
                return "(%s %s)" % (rng.choice(["inc", "dec"]), sub("float"))
            return "(tern %s %s %s)" % (sub("bool"), sub("float"), sub("float"))
        if ty == "str":
            k = rng.random()
            if k < 0.7:
                return "(bin add %s %s)" % (sub("str"), sub("str"))
            return "(tern %s %s %s)" % (sub("bool"), sub("str"), sub("str"))
        if ty == "bool":
            k = rng.random()
            t = rng.choice(["int", "int", "float", "str"])
            if k < 0.6:
                ops = ["eq", "ne"] if t == "str" else ["eq", "ne", "lt", "gt", "le", "ge"]
                return "(bin %s %s %s)" % (rng.choice(ops), sub(t), sub(t))
            if k < 0.8:
                return "(not %s)" % sub("bool")
            return "(tern %s %s %s)" % (sub("bool"), sub("bool"), sub("bool"))
        # any: untyped mixing, most of it fails - kept small
        f = rng.choice(self.FORMS)
        kids = [sub(rng.choice(["int", "float", "str", "bool", "any"])) for _ in range(self.nslots(f))]
        return self.build(f, kids)

    def layout(self, rng, n):
        parens = "".join("1" if rng.random() < 0.15 else "0" for _ in range(n))
        seps = ",".join(str(rng.randrange(8)) for _ in range(n * 3))
        return parens, seps

    def generate(self, rng, tier):
        data = hx(self.data())
        trees = []
        for f1 in self.FORMS:
            for s1 in range(self.nslots(f1)):
                for f2 in self.FORMS:
                    trees.append(self.tree(rng, (f1, {s1: (f2, {})})))
        npairs = len(trees)
        triples = []
        for f1 in self.FORMS:
            for s1 in range(self.nslots(f1)):
                for f2 in self.FORMS:
                    for s2 in range(self.nslots(f2)):
                        for f3 in self.FORMS:
                            triples.append((f1, {s1: (f2, {s2: (f3, {})})}))
            if self.nslots(f1) >= 2:
                for sa in range(self.nslots(f1)):
                    for sb in range(sa + 1, self.nslots(f1)):
                        for f2 in self.FORMS:
                            for f3 in self.FORMS:
                                triples.append((f1, {sa: (f2, {}), sb: (f3, {})}))
        ntri_all = len(triples)
        if tier != "thorough":
            rng.shuffle(triples)
            triples = triples[: 4000 if tier == "quick" else 8000]
        for t in triples:
            trees.append(self.tree(rng, t))
        nrand = {"quick": 3000, "thorough": 40000, "search": 10000}[tier]
        for _ in range(nrand):
            ty = rng.choice(["int", "int", "int", "float", "str", "bool", "any"])
            trees.append(self.rand_tree(rng, rng.choice([2, 3, 4, 5]), ty))
        # boundary arithmetic
        for op in self.BIN:
            for a in ["(var big)", "(var small)", "(int 9223372036854775807)", "(neg (int 1))", "(int 0)"]:
                for b in ["(var big)", "(var small)", "(neg (int 1))", "(int 0)", "(int 2)"]:
                    trees.append("(bin %s %s %s)" % (op, a, b))
        trees += ["(int 9223372036854775808)", "(neg (int 9223372036854775808))", "(int 99999999999999999999)",
                  "(bin add (int 1) (int 9223372036854775808))"]
        lines = []
        for i, t in enumerate(trees):
            n = t.count("(")
            parens, seps = self.layout(rng, n)
            kind = "xassign" if (i % 7 == 3) else "xexpr"
            lines.append("\t".join(["C01:%d" % i, kind, hx(t), hx(parens), hx(seps), data]))
        dist = collections.Counter()
        for t in trees:
            n = t.count("(bin") + t.count("(tern") + t.count("(neg") + t.count("(not") + t.count("(inc") + t.count("(dec") \
                + t.count("(idx") + t.count("(prop") + t.count("(call")
            dist["operators=%s" % (n if n < 4 else "4+")] += 1
        return lines, {"exhaustive": False, "distribution": dict(dist),
                       "pairs": npairs, "triples_enumerated": len(triples), "triples_total": ntri_all}

    def nontrivial(self, r):
        f = r["case"].split("\t")
        return len(f) > 2 and f[2].count("20") >= 4   # at least a few separators, i.e. several tokens


PROPS["C01"] = C01()
