"""Per-property case generators and metadata for tools/check.py.

Every generator derives all random choices from the rng it is given (seeded by
VERIF_SEED) and returns (case_lines, meta) where meta carries the input
distribution written to the evidence file."""
import binascii, itertools, struct, collections


def hx(b):
    if isinstance(b, str):
        b = b.encode("utf-8", "surrogateescape")
    return binascii.hexlify(b).decode() if b else "-"


class Prop:
    timeout_ms = 3000
    rule = ""
    explanation = ""
    assumptions = []
    trusted_extra = []

    def generate(self, rng, tier):
        raise NotImplementedError

    def classify(self, r, known):
        """returns the open known finding that explains oracle failure r, or None"""
        for k in known:
            m = k.get("match")
            if m and m in r["oracle"]:
                f = r["case"].split("\t")
                wit = k.get("witness_hex")
                if wit is None or any(wit in x for x in f[2:]):
                    return k
        return None

    def nontrivial(self, r):
        return True


LEXEMES = [b"{{", b"}}", b"{", b"}", b"(", b")", b"[", b"]", b"@if", b"@else", b"@elseif", b"@end", b"@each", b"@for",
           b"@break", b"@breakIf", b"@continue", b"@continueIf", b"@slot", b"@component", b"@insert", b"@reserve",
           b"@use", b"@dump", b"\\", b"\\{{", b"\\@if", b"--", b"{{--", b"--}}", b"-", b"+", b"++", b"=", b"==", b"!=",
           b"!", b"<", b"<=", b">", b">=", b"*", b"/", b"%", b"?", b":", b",", b".", b";", b"\"", b"'", b"\\\"", b"x",
           b"ab_1", b"true", b"false", b"nil", b"in", b"12", b"3.5", b"1.", b" ", b"\n", b"\r\n", b"\t",
           b"\xc3\xa9", b"#", b"@", b"if", b"I", b"f", b"<p>", b"text", b"e", b"n", b"d"]


def distribution(cases):
    d = collections.Counter()
    for c in cases:
        n = len(c)
        d["len<=4" if n <= 4 else "len<=16" if n <= 16 else "len<=64" if n <= 64 else "len>64"] += 1
    return dict(d)


class C19(Prop):
    rule = ("byte strings: (a) exhaustive over the 13-symbol alphabet { @ \\ { } - \" ( LF e n d SP x } up to length "
            "4 (quick) / 6 (thorough); (b) random concatenations of 1..20 lexemes from the 76-lexeme alphabet "
            "(every token spelling, directives, escapes, comment open/close, quotes, CRLF, UTF-8). NUL bytes are "
            "excluded (the lexer treats NUL as end of input; outside the property's alphabet). A case is "
            "non-trivial when it yields at least two tokens; distinct = distinct source strings.")
    explanation = ("Theorems: the lexer's per-character counters equal the pure position function lc at every "
                   "reachable offset (invariant by induction over readChar), every fixed-width token and the EOF "
                   "token carry exactly lc(start)/lc(end); the executable table used by the oracle equals lc. "
                   "Correspondence: lexer model = implementation on every generated input (full token list with "
                   "positions). Oracle: extracted check_tokens (ordered, disjoint, own text, blank gaps, EOF at end) "
                   "applied to the implementation's tokens.")
    assumptions = ["inputs contain no NUL byte", "positions are compared as (line, byte column), zero-based"]

    ALPHA = [b"@", b"\\", b"{", b"}", b"-", b"\"", b"(", b"\n", b"e", b"n", b"d", b" ", b"x"]

    def generate(self, rng, tier):
        srcs = []
        maxlen = {"quick": 4, "thorough": 6, "search": 3}[tier]
        for n in range(0, maxlen + 1):
            for t in itertools.product(self.ALPHA, repeat=n):
                srcs.append(b"".join(t))
        nrand = {"quick": 20000, "thorough": 300000, "search": 60000}[tier]
        for _ in range(nrand):
            k = rng.choice([1, 2, 3, 4, 5, 6, 8, 12, 20])
            srcs.append(b"".join(rng.choice(LEXEMES) for _ in range(k)))
        lines = ["C19:%d\tlex\t%s" % (i, hx(s)) for i, s in enumerate(srcs)]
        return lines, {"exhaustive": False, "distribution": distribution(srcs),
                       "exhaustive_part": "all strings over 13 symbols up to length %d" % maxlen}

    def nontrivial(self, r):
        return r["impl"].count(";") >= 1


PROPS = {
    "C19": C19(),
}
