"""Per-property case generators and metadata for tools/check.py.

Every generator derives all random choices from the rng it is given (seeded by
VERIF_SEED) and returns (case_lines, meta) where meta carries the input
distribution written to the evidence file."""
import binascii, itertools, struct, collections


def hx(b):
    if isinstance(b, str):
        b = b.encode("utf-8", "surrogateescape")
    return binascii.hexlify(b).decode() if b else "-"


class Prop:
    timeout_ms = 3000
    rule = ""
    explanation = ""
    assumptions = []
    trusted_extra = []

    def generate(self, rng, tier):
        raise NotImplementedError

    def classify(self, r, known):
        """returns the open known finding that explains oracle failure r, or None"""
        for k in known:
            m = k.get("match")
            if m and m in r["oracle"]:
                f = r["case"].split("\t")
                wit = k.get("witness_hex")
                if wit is None or any(wit in x for x in f[2:]):
                    return k
        return None

    def nontrivial(self, r):
        return True

    def post_check(self, results):
        return []


LEXEMES = [b"{{", b"}}", b"{", b"}", b"(", b")", b"[", b"]", b"@if", b"@else", b"@elseif", b"@end", b"@each", b"@for",
           b"@break", b"@breakIf", b"@continue", b"@continueIf", b"@slot", b"@component", b"@insert", b"@reserve",
           b"@use", b"@dump", b"\\", b"\\{{", b"\\@if", b"--", b"{{--", b"--}}", b"-", b"+", b"++", b"=", b"==", b"!=",
           b"!", b"<", b"<=", b">", b">=", b"*", b"/", b"%", b"?", b":", b",", b".", b";", b"\"", b"'", b"\\\"", b"x",
           b"ab_1", b"true", b"false", b"nil", b"in", b"12", b"3.5", b"1.", b" ", b"\n", b"\r\n", b"\t",
           b"\xc3\xa9", b"#", b"@", b"if", b"I", b"f", b"<p>", b"text", b"e", b"n", b"d"]


def distribution(cases):
    d = collections.Counter()
    for c in cases:
        n = len(c)
        d["len<=4" if n <= 4 else "len<=16" if n <= 16 else "len<=64" if n <= 64 else "len>64"] += 1
    return dict(d)


class C19(Prop):
    rule = ("byte strings: (a) exhaustive over the 13-symbol alphabet { @ \\ { } - \" ( LF e n d SP x } up to length "
            "4 (quick) / 6 (thorough); (b) random concatenations of 1..20 lexemes from the 76-lexeme alphabet "
            "(every token spelling, directives, escapes, comment open/close, quotes, CRLF, UTF-8). NUL bytes are "
            "excluded (the lexer treats NUL as end of input; outside the property's alphabet); (c) cursor cases: inputs "
            "rich in multi-line tokens, for which Position.Contains is evaluated at the cursor of every byte offset for "
            "every token and must say 'inside' exactly for the offsets of the token's own byte range. A case is "
            "non-trivial when it yields at least two tokens; distinct = distinct source strings.")
    explanation = ("Theorems: the lexer's per-character counters equal the pure position function lc at every "
                   "reachable offset (invariant by induction over readChar), every fixed-width token and the EOF "
                   "token carry exactly lc(start)/lc(end); the executable table used by the oracle equals lc. "
                   "Correspondence: lexer model = implementation on every generated input (full token list with "
                   "positions). Oracle: extracted check_tokens (ordered, disjoint, own text, blank gaps, EOF at end) "
                   "applied to the implementation's tokens.")
    assumptions = ["inputs contain no NUL byte", "positions are compared as (line, byte column), zero-based"]

    ALPHA = [b"@", b"\\", b"{", b"}", b"-", b"\"", b"(", b"\n", b"e", b"n", b"d", b" ", b"x"]

    def generate(self, rng, tier):
        srcs = []
        maxlen = {"quick": 4, "thorough": 6, "search": 3}[tier]
        for n in range(0, maxlen + 1):
            for t in itertools.product(self.ALPHA, repeat=n):
                srcs.append(b"".join(t))
        nrand = {"quick": 20000, "thorough": 300000, "search": 60000}[tier]
        for _ in range(nrand):
            k = rng.choice([1, 2, 3, 4, 5, 6, 8, 12, 20])
            srcs.append(b"".join(rng.choice(LEXEMES) for _ in range(k)))
        # multi-byte sequences are ordinary bytes wherever they stand: a byte order mark, NBSP, a line separator, lone bytes
        MB = [b"\xef\xbb\xbf", b"\xc2\xa0", b"\xe2\x80\xa8", b"\xff", b"\xfe\xff", b"\xef\xbb", b"\xf0\x9f\x98\x80", b"\xc2\x85"]
        for m in MB:
            for k in range({"quick": 40, "thorough": 400, "search": 80}[tier]):
                body = b"".join(rng.choice(LEXEMES) for _ in range(rng.choice([1, 2, 3, 5])))
                srcs.append(m + body)
                if k % 4 == 0:
                    cut = rng.randrange(len(body) + 1)
                    srcs.append(body[:cut] + m + body[cut:])
        lines = ["C19:%d\tlex\t%s" % (i, hx(s)) for i, s in enumerate(srcs)]
        # cursors: token.Position.Contains at the cursor of EVERY byte offset, for every token, on inputs with
        # multi-line tokens (text, strings and comments holding newlines) starting at a column > 0
        ML = [b"ab\ncd", b"\n", b"x\n\ny", b"\"s1\ns2\"", b"'q\n'", b"{{-- c\nc --}}", b"\r\n", b"<p>\n  t\n</p>", b"\xc3\xa9\n"]
        ncur = {"quick": 4000, "thorough": 60000, "search": 8000}[tier]
        csrcs = [b"<div>\n  {{ x = \"first line\n2\" }}\n</div>\n", b"a{{ \"b\nc\" }}d\ne", b"{{ 1 }}\n</div>\n", b"ab\ncd{{ 'x\ny' }}"]
        for _ in range(ncur):
            k = rng.choice([1, 2, 3, 4, 6, 9])
            csrcs.append(b"".join(rng.choice(ML) if rng.random() < 0.4 else rng.choice(LEXEMES) for _ in range(k)))
        lines += ["C19:c%d\tlexc\t%s" % (i, hx(s)) for i, s in enumerate(csrcs)]
        return lines, {"exhaustive": False, "distribution": distribution(srcs + csrcs), "cursor_cases": len(csrcs),
                       "exhaustive_part": "all strings over 13 symbols up to length %d" % maxlen}

    def nontrivial(self, r):
        return r["impl"].count(";") >= 1


PROPS = {
    "C19": C19(),
}


# ----------------------------------------------------------------------------- C01

def f64bits(x):
    return "%016x" % struct.unpack(">Q", struct.pack(">d", x))[0]


class C01(Prop):
    rule = ("specification expression trees, printed by the extracted Coq printer with a layout (separators from "
            "{SP, LF, TAB, SP SP, CRLF, ...}, random redundant parentheses) and evaluated by the extracted semantics: "
            "(a) every ordered pair of the 19 operator forms (11 binary, ternary, 2 prefix, 2 postfix, index, property, "
            "call) in every operand slot; (b) triples: all chains and forks (thorough) or a seeded sample (quick); "
            "(c) random typed trees to depth 5; (d) the same trees as the right-hand side of an assignment; "
            "(e) integer boundary operands and out-of-range literals; (f) every operator on every ordered pair of IEEE-754 "
            "special values (NaN, +-Inf, -0.0, smallest subnormal, largest finite, 0.0/0.0, 1.5/0.0). Non-trivial: at least two operators; "
            "distinct = distinct rendered source + data.")
    explanation = ("Theorems: Go's binding-power table read from parser.go is a strictly monotone image of the "
                   "property's levels; the Pratt parser model parses the printer's output back to the tree "
                   "(round-trip, for the binary/prefix/ternary/parenthesis fragment with any redundant parentheses); "
                   "wrap64/quot/rem facts. Correspondence: model = implementation on every case. Oracle: "
                   "implementation output = text of sem(tree), error iff sem says error.")
    assumptions = ["floats are dyadic rationals with short decimal expansions (others are counted as unmodelled)",
                   "the meaning of built-in calls inside expressions is taken from the built-in model (C11's subject)"]

    BIN = ["add", "sub", "mul", "div", "mod", "eq", "ne", "lt", "gt", "le", "ge"]
    FORMS = BIN + ["tern", "neg", "not", "inc", "dec", "idx", "prop", "call"]
    DATA = {
        "x": "(int 7)", "y": "(int 2)", "z": "(int 3)", "w": "(int 0)",
        "big": "(int 9223372036854775807)", "small": "(int -9223372036854775808)",
        "f": "(f64 %s)" % f64bits(1.5), "g": "(f64 %s)" % f64bits(0.25), "h": "(f64 %s)" % f64bits(-2.0),
        "s": "(str %s)" % hx("ab"), "t": "(str %s)" % hx(""), "b": "(bool 1)", "c": "(bool 0)", "n": "(nil)",
        "a": "(slice (int 5) (int 6) (int 7))", "e": "(slice)",
        "o": "(map (%s (int 4)) (%s (str %s)))" % (hx("k"), hx("Name"), hx("bob")),
        # IEEE-754 special values
        "nan": "(f64 7ff8000000000000)", "inf": "(f64 7ff0000000000000)", "ninf": "(f64 fff0000000000000)",
        "nz": "(f64 8000000000000000)", "tiny": "(f64 0000000000000001)", "huge": "(f64 7fefffffffffffff)",
    }
    SPECIAL = ["(var nan)", "(var inf)", "(var ninf)", "(var nz)", "(float 0 1)", "(var f)", "(var huge)", "(var tiny)",
               "(bin div (float 0 1) (float 0 1))", "(bin div (float 15 1) (float 0 1))", "(neg (float 0 1))"]

    def data(self):
        return "(" + " ".join("(%s %s)" % (hx(k), v) for k, v in self.DATA.items()) + ")"

    def nslots(self, f):
        return 2 if f in self.BIN or f == "idx" else 3 if f == "tern" else 1

    def leaf(self, rng, f, slot):
        ints = ["(int 7)", "(int 2)", "(int 3)", "(var x)", "(var y)", "(var z)", "(int 1)"]
        if f == "not":
            return rng.choice(["(bool 1)", "(bool 0)", "(var b)", "(nil)"])
        if f == "idx" and slot == 0:
            return rng.choice(["(var a)", "(arr (int 5) (int 6) (int 7))"])
        if f == "idx" and slot == 1:
            return rng.choice(["(int 0)", "(int 1)", "(int 2)", "(var y)"])
        if f == "prop":
            return "(var o)"
        if f == "call":
            return rng.choice(["(var s)", "(var a)", "(var x)"])
        if f == "tern" and slot == 0:
            return rng.choice(["(bool 1)", "(bool 0)", "(var w)", "(var x)", "(var t)"])
        return rng.choice(ints)

    def build(self, f, kids):
        if f in self.BIN:
            return "(bin %s %s %s)" % (f, kids[0], kids[1])
        if f == "tern":
            return "(tern %s %s %s)" % tuple(kids)
        if f in ("neg", "not", "inc", "dec"):
            return "(%s %s)" % (f, kids[0])
        if f == "idx":
            return "(idx %s %s)" % (kids[0], kids[1])
        if f == "prop":
            return "(prop %s k)" % kids[0]
        if f == "call":
            return "(call %s %s)" % (kids[0], "len" if "s)" in kids[0] or "a)" in kids[0] or "arr" in kids[0] else "abs")
        raise ValueError(f)

    def tree(self, rng, forms_at):
        """forms_at: nested spec (form, {slot: subtree-spec})"""
        f, sub = forms_at
        kids = []
        for s in range(self.nslots(f)):
            if s in sub:
                kids.append(self.tree(rng, sub[s]))
            else:
                kids.append(self.leaf(rng, f, s))
        return self.build(f, kids)

    def rand_tree(self, rng, d, ty):
        r = rng.random()
        if d <= 0 or r < 0.25:
            return {"int": rng.choice(["(int 7)", "(int 2)", "(int 3)", "(int 0)", "(int 1)", "(var x)", "(var y)", "(var big)",
                                       "(var small)", "(int 9223372036854775807)", "(var w)"]),
                    "float": rng.choice(["(float 15 1)", "(float 25 2)", "(float 20 1)", "(var f)", "(var g)", "(var h)", "(float 5 1)"]
                                        + (self.SPECIAL if rng.random() < 0.15 else [])),
                    "str": rng.choice(["(str %s 1)" % hx("a<b"), "(str %s 0)" % hx("it's"), "(var s)", "(var t)", "(str %s 1)" % hx("q\"x"),
                                       "(str - 1)", "(str %s 0)" % hx("h\xc3\xa9&"), ]),
                    "bool": rng.choice(["(bool 1)", "(bool 0)", "(var b)", "(var c)", "(nil)", "(var n)"]),
                    "any": rng.choice(["(int 4)", "(var x)", "(var s)", "(var f)", "(var b)", "(var a)", "(var o)", "(nil)", "(var nope)"])}[ty]
        sub = lambda t: self.rand_tree(rng, d - 1, t)
        if ty == "int":
            k = rng.random()
            if k < 0.55:
                return "(bin %s %s %s)" % (rng.choice(["add", "sub", "mul", "div", "mod"]), sub("int"), sub("int"))
            if k < 0.65:
                return "(neg %s)" % sub("int")
            if k < 0.75:
                return "(%s %s)" % (rng.choice(["inc", "dec"]), sub("int"))
            if k < 0.85:
                return "(tern %s %s %s)" % (sub(rng.choice(["bool", "int", "str", "float"])), sub("int"), sub("int"))
            if k < 0.9:
                return "(idx (var a) %s)" % sub("int")
            if k < 0.95:
                return "(prop (var o) k)"
            return "(call %s len)" % sub("str")
        if ty == "float":
            k = rng.random()
            if k < 0.6:
                return "(bin %s %s %s)" % (rng.choice(["add", "sub", "mul", "add", "sub", "mul", "div"]), sub("float"), sub("float"))
            if k < 0.7:
                return "(neg %s)" % sub("float")
            if k < 0.8:
                return "(%s %s)" % (rng.choice(["inc", "dec"]), sub("float"))
            return "(tern %s %s %s)" % (sub("bool"), sub("float"), sub("float"))
        if ty == "str":
            k = rng.random()
            if k < 0.7:
                return "(bin add %s %s)" % (sub("str"), sub("str"))
            return "(tern %s %s %s)" % (sub("bool"), sub("str"), sub("str"))
        if ty == "bool":
            k = rng.random()
            t = rng.choice(["int", "int", "float", "str"])
            if k < 0.6:
                ops = ["eq", "ne"] if t == "str" else ["eq", "ne", "lt", "gt", "le", "ge"]
                return "(bin %s %s %s)" % (rng.choice(ops), sub(t), sub(t))
            if k < 0.8:
                return "(not %s)" % sub("bool")
            return "(tern %s %s %s)" % (sub("bool"), sub("bool"), sub("bool"))
        # any: untyped mixing, most of it fails - kept small
        f = rng.choice(self.FORMS)
        kids = [sub(rng.choice(["int", "float", "str", "bool", "any"])) for _ in range(self.nslots(f))]
        return self.build(f, kids)

    def layout(self, rng, n):
        parens = "".join("1" if rng.random() < 0.15 else "0" for _ in range(n))
        seps = ",".join(str(rng.randrange(8)) for _ in range(n * 3))
        return parens, seps

    def generate(self, rng, tier):
        data = hx(self.data())
        trees = []
        for f1 in self.FORMS:
            for s1 in range(self.nslots(f1)):
                for f2 in self.FORMS:
                    trees.append(self.tree(rng, (f1, {s1: (f2, {})})))
        npairs = len(trees)
        triples = []
        for f1 in self.FORMS:
            for s1 in range(self.nslots(f1)):
                for f2 in self.FORMS:
                    for s2 in range(self.nslots(f2)):
                        for f3 in self.FORMS:
                            triples.append((f1, {s1: (f2, {s2: (f3, {})})}))
            if self.nslots(f1) >= 2:
                for sa in range(self.nslots(f1)):
                    for sb in range(sa + 1, self.nslots(f1)):
                        for f2 in self.FORMS:
                            for f3 in self.FORMS:
                                triples.append((f1, {sa: (f2, {}), sb: (f3, {})}))
        ntri_all = len(triples)
        if tier != "thorough":
            rng.shuffle(triples)
            triples = triples[: 4000 if tier == "quick" else 8000]
        for t in triples:
            trees.append(self.tree(rng, t))
        nrand = {"quick": 3000, "thorough": 40000, "search": 10000}[tier]
        for _ in range(nrand):
            ty = rng.choice(["int", "int", "int", "float", "str", "bool", "any"])
            trees.append(self.rand_tree(rng, rng.choice([2, 3, 4, 5]), ty))
        # boundary arithmetic
        for op in self.BIN:
            for a in ["(var big)", "(var small)", "(int 9223372036854775807)", "(neg (int 1))", "(int 0)"]:
                for b in ["(var big)", "(var small)", "(neg (int 1))", "(int 0)", "(int 2)"]:
                    trees.append("(bin %s %s %s)" % (op, a, b))
        # IEEE-754 special values: every comparison and arithmetic operator on every ordered pair
        for op in self.BIN:
            if op == "mod":
                continue
            for a in self.SPECIAL:
                for b in self.SPECIAL:
                    trees.append("(bin %s %s %s)" % (op, a, b))
        for a in self.SPECIAL:
            trees += ["(tern %s (int 1) (int 2))" % a, "(neg %s)" % a, "(inc %s)" % a]
        trees += ["(int 9223372036854775808)", "(neg (int 9223372036854775808))", "(int 99999999999999999999)",
                  "(bin add (int 1) (int 9223372036854775808))"]
        lines = []
        for i, t in enumerate(trees):
            n = t.count("(")
            parens, seps = self.layout(rng, n)
            kind = "xassign" if (i % 7 == 3) else "xexpr"
            lines.append("\t".join(["C01:%d" % i, kind, hx(t), hx(parens), hx(seps), data]))
        # other spellings of the same literal: leading zeros do not change an integer or a float (decimal, never octal)
        RAWLIT = [("010 + 1", "11"), ("08", "8"), ("09 * 2", "18"), ("007", "7"), ("012 == 12 ? \"same\" : \"different\"", "same"),
                  ("00000000000000000000009 + 1", "10"), ("0", "0"), ("00", "0"), ("010.5 + 0.5", "11.0"), ("0777 - 700", "77"),
                  ("[010, 011][1]", "11"), ("-010", "-10"), ("10 % 08", "2"), ("0x", None), ("1 + 019", "20")]
        for j, (src, want) in enumerate(RAWLIT):
            cons = ["nopanic"] + (["out:0:" + hx(want)] if want is not None else [])
            lines.append(tree_case("C01:l%d" % j, [], [op_evalstr("{{ %s }}" % src)], cons))
        dist = collections.Counter()
        for t in trees:
            n = t.count("(bin") + t.count("(tern") + t.count("(neg") + t.count("(not") + t.count("(inc") + t.count("(dec") \
                + t.count("(idx") + t.count("(prop") + t.count("(call")
            dist["operators=%s" % (n if n < 4 else "4+")] += 1
        return lines, {"exhaustive": False, "distribution": dict(dist),
                       "pairs": npairs, "triples_enumerated": len(triples), "triples_total": ntri_all}

    def nontrivial(self, r):
        f = r["case"].split("\t")
        return len(f) > 2 and f[2].count("20") >= 4   # at least a few separators, i.e. several tokens


PROPS["C01"] = C01()


# ----------------------------------------------------------------------------- C05

class C05(Prop):
    rule = ("byte strings over the adversarial alphabet { @ \\ { } - e n d i f LF CR é(2 bytes) SP } exhaustively up to "
            "length 4 (quick) / 6 (thorough), alone and spliced before/after/around the code block '{{ 1 }}' and a "
            "comment; random strings to length 40 over the same alphabet plus directive names, their proper prefixes, "
            "'{{--', '--}}', '\\{{', '\\@if'. The expected output is computed by the extracted reference scanner "
            "(Spec/Text.v); inputs outside its domain (other active syntax) only run the correspondence. "
            "Non-trivial: contains at least one of @ \\ { } -; distinct = distinct sources.")
    explanation = ("Theorems: the reference scanner is the identity on plain text; text with no '{{', no directive and "
                   "no NUL is one HTML token whose literal is the input (readHTML loop invariant). Correspondence: "
                   "render model = implementation. Oracle: implementation output = reference scanner output, error iff "
                   "the scanner says the comment is unterminated.")
    assumptions = ["no NUL bytes (the lexer treats NUL as end of input)"]
    ALPHA = [b"@", b"\\", b"{", b"}", b"-", b"e", b"n", b"d", b"i", b"f", b"\n", b"\r", b"\xc3\xa9", b" "]
    WORDS = [b"@if", b"@end", b"@else", b"@elseif", b"@each", b"@for", b"@break", b"@breakIf", b"@continue", b"@continueIf",
             b"@slot", b"@component", b"@insert", b"@reserve", b"@use", b"@dump", b"@i", b"@en", b"@els", b"@eac", b"@brea",
             b"@compon", b"{{--", b"--}}", b"\\{{", b"\\@if", b"\\@end", b"\\@each", b"{{ 1 }}", b"{{ 42 }}", b"}}", b"{", b"}",
             b"\\", b"\\\\", b"-", b"--", b"<p>", b"text", b"\n", b"\r\n", b"\xc3\xa9", b" ", b"@", b"@@", b"e", b"{{--x--}}",
             b"{{-- @if(x) {{ y }} --}}", b"{{---}}", b"{{-- - --}}", b"{{--}}",
             # bytes that are not valid UTF-8 where they stand pass through like any other byte
             b"\xe9", b"\xc3", b"\xa9", b"\x80", b"\xff", b"\xe2\x82", b"\xf0\x9f", b"caf\xe9", b"(", b")", b"(b)"]

    def generate(self, rng, tier):
        srcs = []
        maxlen = {"quick": 4, "thorough": 5, "search": 3}[tier]
        base = []
        for n in range(0, maxlen + 1):
            for t in itertools.product(self.ALPHA, repeat=n):
                base.append(b"".join(t))
        srcs += base
        # spliced around a code block and a comment
        short = [b for b in base if len(b) <= (3 if tier != "thorough" else 4)]
        for b in short:
            srcs.append(b + b"{{ 1 }}")
            srcs.append(b"{{ 1 }}" + b)
            srcs.append(b"{{-- c --}}" + b)
            srcs.append(b + b"{{-- c --}}")
        for a in short[:: 7]:
            for b in short[:: 97]:
                srcs.append(a + b"{{ 7 }}" + b)
                srcs.append(b"{{--" + a + b"--}}" + b)
        nrand = {"quick": 20000, "thorough": 200000, "search": 50000}[tier]
        for _ in range(nrand):
            k = rng.choice([1, 2, 3, 4, 6, 8, 12])
            srcs.append(b"".join(rng.choice(self.WORDS if rng.random() < 0.7 else self.ALPHA) for _ in range(k)))
        lines = ["C05:%d\txtext\t%s" % (i, hx(s)) for i, s in enumerate(srcs)]
        # text written directly after a directive statement that has no body (a component use without slots,
        # in template files): it must come out where it stands, like any other text
        k = 0
        for pre in ["", "A", "{{ 1 }}"]:
            for use in ["@component('~c')", "@component('~c', {a: 1})"]:
                for ws in [" ", "\n", "\t ", "  \n  ", "", " \r\n"]:
                    for nxt in ["{{ 2 }}", "@if(true)x@end", "", "B", "{{-- c --}}", "@component('~c')", "\\{{", "@each(i in [1])y@end"]:
                        page = pre + use + ws + nxt
                        files = [("tpl/pg.tw", "file", page), ("tpl/components/c.tw", "file", "[C]")]
                        ops = [op_new("tpl", ".tw"), op_string("pg"), op_evalstr(page.replace("@component('~c', {a: 1})", "[C]").replace("@component('~c')", "[C]"))]
                        lines.append(tree_case("C05:t%d" % k, files, ops, ["ok:0", "eq:1:2", "nopanic"]))
                        k += 1
        # a template read from a FILE is the file's bytes, first byte to last: a byte order mark or any other odd bytes
        # at the start of a page or of a component file come out like everywhere else (same as EvaluateString on them)
        LEADS = [b"\xef\xbb\xbf", b"\xef\xbb", b"\xfe\xff", b"\xff\xfe", b"\xef\xbb\xbf\xef\xbb\xbf", b"\r\n", b" \n", b"\x0b", b"\xc2\xa0",
                 b"\xe2\x80\x8b", b"\t", b"\x01", b"#!tw\n"]
        for j, lead in enumerate(LEADS):
            for tailb in (b"<p>{{ 1 }}</p>\n", b"", b"x"):
                content = lead + tailb
                out = content.replace(b"{{ 1 }}", b"1")
                files = [("tpl/pg.tw", "file", content), ("tpl/components/c.tw", "file", content),
                         ("tpl/user.tw", "file", b"<div>@component('~c')</div>")]
                ops = [op_new("tpl", ".tw"), op_string("pg"), op_evalstr(content), op_string("user"), op_evalfile("tpl/pg.tw")]
                lines.append(tree_case("C05:f%d" % k, files, ops,
                                       ["ok:0", "out:1:" + hx(out), "out:2:" + hx(out), "out:3:" + hx(b"<div>" + out + b"</div>"),
                                        "out:4:" + hx(out), "nopanic"]))
                k += 1
        # text directly before / after whole directive constructs, with the output known by construction
        CONS = [(b"@if(true)a@end", b"a"), (b"@if(false)a@else@end", b""), (b"@if(false)a@else(b)@end", b"(b)"),
                (b"@each(i in [1])x@end", b"x"), (b"@if(true)@if(true)q@end@end", b"q"), (b"@each(i in [1, 2])@continue@end", b""),
                (b"@each(i in [1, 2])y@break@end", b"y"), (b"{{ 1 }}", b"1"), (b"@for(i = 0; i < 1; i++)z@end", b"z")]
        SEGS = [b"", b"(b)", b"(1, 2);", b" (b)", b"[x]", b"\xe9", b"\xc3", b"\xe2\x82", b"}}", b"-", b"--}}", b"e", b" if", b")", b"(", b"\n(",
                b"caf\xe9 ", b"<p>", b"\r\n", b"x", b"{", b"}"]
        for a in SEGS:
            for (c, co) in CONS:
                for b in SEGS:
                    if a.endswith(b"{") and c.startswith(b"{{"):
                        continue      # "{{{ 1 }}" opens a block holding an object literal: other syntax, not text + block
                    src = a + c + b
                    lines.append(tree_case("C05:s%d" % k, [], [op_evalstr(src)], ["out:0:" + hx(a + co + b), "nopanic"]))
                    k += 1
        return lines, {"exhaustive": False, "distribution": distribution(srcs),
                       "exhaustive_part": "all strings over 14 symbols up to length %d, alone and spliced" % maxlen}

    def nontrivial(self, r):
        f = r["case"].split("\t")
        return any(x in f[2] for x in ("40", "5c", "7b", "7d", "2d"))


PROPS["C05"] = C05()


# ----------------------------------------------------------------------------- valid template grammar (atoms with depth)

class TemplateGen:
    """generates valid templates as atom lists; depth[i] > 0 after atom i means an open construct"""

    def __init__(self, rng):
        self.rng = rng

    def expr(self, d=0):
        r = self.rng
        x = r.random()
        if d > 2 or x < 0.35:
            return [(r.choice(["1", "2", "x", "y", "true", "nil", "3.5", "a.b", "n"]), 0)]
        if x < 0.6:
            return self.expr(d + 1) + [(" " + r.choice(["+", "-", "*", "/", "==", "<", ">="]) + " ", 0)] + self.expr(d + 1)
        if x < 0.68:
            return self.expr(d + 1) + [(" ? ", 0)] + self.expr(d + 1) + [(" : ", 0)] + self.expr(d + 1)
        if x < 0.76:
            return [("(", +1)] + self.expr(d + 1) + [(")", -1)]
        if x < 0.84:
            return [(r.choice(['"', "'"]), +1), ("str", 0), (None, -1)]      # closing quote filled below
        if x < 0.9:
            return [("{", +1), ("k: ", 0)] + self.expr(d + 1) + [("}", -1)]
        if x < 0.95:
            return [("[", +1)] + self.expr(d + 1) + [(", ", 0)] + self.expr(d + 1) + [("]", -1)]
        return [("x.f(", +1)] + self.expr(d + 1) + [(")", -1)]

    def fix_quotes(self, atoms):
        out, stack = [], []
        for a, dd in atoms:
            if a in ('"', "'") and dd == +1:
                stack.append(a)
                out.append((a, dd))
            elif a is None:
                out.append((stack.pop(), dd))
            else:
                out.append((a, dd))
        return out

    def stmt(self, d=0):
        r = self.rng
        x = r.random()
        if d > 2 or x < 0.25:
            return [(r.choice(["text ", "<p>", "\n", " ", "a\nb", "x"]), 0)]
        if x < 0.45:
            return [("{{ ", +1)] + self.expr() + [(" }}", -1)]
        if x < 0.5:
            return [("{{ v = ", +1)] + self.expr() + [(" }}", -1)]
        if x < 0.65:
            a = [("@if(", +1)] + self.expr() + [(")", 0)] + self.block(d + 1)
            for _ in range(r.choice([0, 0, 1, 2])):
                a += [("@elseif(", +1)] + self.expr() + [(")", -1)] + self.block(d + 1)
            if r.random() < 0.5:
                a += [("@else", 0)] + self.block(d + 1)
            return a + [("@end", -1)]
        if x < 0.75:
            return [("@each(v in ", +1)] + self.expr() + [(")", 0)] + self.block(d + 1) + [("@end", -1)]
        if x < 0.82:
            return [("@for(i = 0; i < 3; i++", +1), (")", 0)] + self.block(d + 1) + [("@end", -1)]
        if x < 0.87:
            return [("{{--", +1), (" note ", 0), ("--}}", -1)]
        if x < 0.92:
            return [("@insert('a'", +1), (")", 0)] + self.block(d + 1) + [("@end", -1)]
        if x < 0.96:
            return [("@dump(", +1)] + self.expr() + [(")", -1)]
        return [("@breakIf(", +1)] + self.expr() + [(")", -1)]

    def block(self, d):
        out = [(self.rng.choice(["x", "A", " b "]), 0)]
        for _ in range(self.rng.choice([0, 1, 1, 2])):
            out += self.stmt(d)
        return out

    def template(self):
        atoms = []
        for _ in range(self.rng.choice([1, 2, 3])):
            atoms += self.stmt()
        return self.fix_quotes(atoms)


# ----------------------------------------------------------------------------- C08

LEXEMES_NUL = LEXEMES + [b"\x00"]


class C08(Prop):
    timeout_ms = 4000
    rule = ("(a) every sequence of up to 2 lexemes from the 76-lexeme alphabet (exhaustive) and sampled (quick) or all "
            "(thorough) triples; (b) generated valid templates, every prefix at an atom boundary - prefixes that leave "
            "an @-block, a {{ }} block, object literal, string, comment or directive argument list open must be rejected (ids C08e), "
            "as must tokens that follow a complete statement inside a {{ }} block; "
            "(c) single-atom deletion / duplication / swap of valid templates; (d) templates with an illegal character "
            "inside code (must be rejected); (e) random lexeme soups. Each input goes through the parser API (program "
            "or errors) ; a sample also through EvaluateString. A watchdog outside the process records hangs. "
            "Non-trivial: at least 2 lexemes; distinct = distinct sources.")
    explanation = ("Theorems: the lexer model needs no fuel beyond the input length (every token consumes a byte), so "
                   "lexing terminates and yields at most length+3 tokens. Correspondence: parser model = implementation "
                   "(error count, first error line and message, or the full AST). Oracle: returned, no panic, program or "
                   ">= 1 error with line >= 1; open-construct prefixes and illegal characters rejected.")
    assumptions = ["the goroutine stack is not modelled: the parser recurses to a depth that the theorems bound by 6 x the number of "
                   "tokens, and the runtime's 1 GB stack limit is reached by about 10^6 nested constructs (a source of several "
                   "megabytes such as 1,000,000 x '@if(true)'); generated inputs nest at most a few dozen levels"]

    def generate(self, rng, tier):
        cases = []   # (idprefix, kind, bytes)
        for a in LEXEMES_NUL:
            cases.append(("C08", "parse", a))
            for b in LEXEMES_NUL:
                cases.append(("C08", "parse", a + b))
        ntri = {"quick": 12000, "thorough": len(LEXEMES_NUL) ** 3, "search": 30000}[tier]
        if tier == "thorough":
            for a in LEXEMES_NUL:
                for b in LEXEMES_NUL:
                    for c in LEXEMES_NUL:
                        cases.append(("C08", "parse", a + b + c))
        else:
            for _ in range(ntri):
                cases.append(("C08", "parse", rng.choice(LEXEMES_NUL) + rng.choice(LEXEMES_NUL) + rng.choice(LEXEMES_NUL)))
        ntpl = {"quick": 400, "thorough": 5000, "search": 1500}[tier]
        tg = TemplateGen(rng)
        for _ in range(ntpl):
            atoms = tg.template()
            full = "".join(a for a, _ in atoms).encode()
            cases.append(("C08", "parse", full))
            depth = 0
            for i, (a, dd) in enumerate(atoms[:-1]):
                depth += dd
                pre = "".join(x for x, _ in atoms[: i + 1]).encode()
                cases.append(("C08e" if depth > 0 else "C08", "parse", pre))
            if len(atoms) > 1:
                for _ in range(3):
                    i = rng.randrange(len(atoms))
                    j = rng.randrange(len(atoms))
                    m = list(atoms)
                    op = rng.choice(["del", "dup", "swap"])
                    if op == "del":
                        del m[i]
                    elif op == "dup":
                        m.insert(i, m[i])
                    else:
                        m[i], m[j] = m[j], m[i]
                    cases.append(("C08", "parse", "".join(x for x, _ in m).encode()))
                # tokens after a complete statement inside a {{ }} block, and a block closed by a single brace
                close_pos = [i for i, (a, _) in enumerate(atoms) if a == " }}"]
                if close_pos:
                    i = rng.choice(close_pos)
                    m = list(atoms)
                    m.insert(i, (rng.choice([" zz", " 1", " 'q'", " true"]), 0))
                    cases.append(("C08e", "parse", "".join(x for x, _ in m).encode()))
                    m = list(atoms)
                    m[i] = (" }", 0)
                    cases.append(("C08e", "parse", "".join(x for x, _ in m).encode()))
                # an illegal character inside code
                code_pos = [i for i, (a, _) in enumerate(atoms) if a.startswith("{{ ")]
                if code_pos:
                    i = rng.choice(code_pos)
                    m = list(atoms)
                    m.insert(i + 1, (rng.choice(["#", "$", "~", "^", "&", "|", "`"]), 0))
                    cases.append(("C08e", "parse", "".join(x for x, _ in m).encode()))
        # an illegal character in every slot where the grammar expects a name, a key, an argument or an operand
        for src in ["{{ 1", "{{ 1 }", "{{ a b }}", "{{ x = 5; x", "{{ x = 5", "{{ 1 + 2 }} {{ 3", "x{{ y", "{{ 'a' 'b' }}", "{{ 1 2 }}", "{{ a--b }}",
                    "@if(true){{ 1 @end", "{{ x = 1 y }}", "{{ [1] 2 }}", "{{ f(1) g }}"]:
            cases.append(("C08e", "parse", src.encode()))
        for src in ["{{ 1; 2 }}", "{{ x = 5; x }}", "{{ x = 1 }}{{ x }}", "{{ 1;2;3 }}", "{{ a; }}"]:
            cases.append(("C08", "parse", src.encode()))
        slots = ["{{ {%s: 1} }}", "{{ {a: 1, %s: 2} }}", "{{ {%s} }}", "@each(%s in [1, 2])x@end", "@each(v in %s)x@end", "@reserve(%s)", "@slot(%s)x@end",
                 "@slot(%s)", "@insert(%s, 1)", "@insert('a', %s)", "@insert(%s)x@end", "@use(%s)", "{{ x.%s }}", "{{ x.%s() }}", "@for(%s = 0; i < 1; i++)x@end",
                 "@for(i = 0; %s; i++)x@end", "@for(i = 0; i < 1; %s)x@end", "{{ [%s] }}", "{{ [1, %s] }}", "{{ 'a'.len(%s) }}", "@component(%s)",
                 "@component('c', %s)", "@component('c', {%s: 1})", "@if(%s)x@end", "@if(true)x@elseif(%s)y@end", "@breakIf(%s)", "@continueIf(%s)",
                 "@dump(%s)", "{{ %s }}", "{{ 1 + %s }}", "{{ %s + 1 }}", "{{ -%s }}", "{{ true ? %s : 1 }}", "{{ true ? 1 : %s }}", "{{ x[%s] }}",
                 "{{ %s = 1 }}", "{{ x = %s }}", "{{ x %s }}", "{{ (%s) }}", "{{ %s++ }}"]
        for tpl in slots:
            for ch in ["#", "$", "~", "^", "&", "|", "`", "\\", "\x01", "\xc3\xa9", "@"]:
                cases.append(("C08e", "parse", (tpl % ch).encode("latin-1") if ch in ("\x01",) else (tpl % ch).encode()))
            # bytes that other languages count as white space (VT, FF, NEL, NBSP as single bytes) are illegal characters here
            for ch in ["\x0b", "\x0c", "\x85", "\xa0", "\x1c", "\x7f"]:
                cases.append(("C08e", "parse", (tpl % (" " + ch + " ")).encode("latin-1")))
                cases.append(("C08e", "parse", (tpl % ("1 " + ch)).encode("latin-1") if "%s }}" in tpl else (tpl % ch).encode("latin-1")))
        nsoup = {"quick": 8000, "thorough": 100000, "search": 20000}[tier]
        for _ in range(nsoup):
            k = rng.choice([4, 5, 6, 8, 12, 20, 30])
            cases.append(("C08", rng.choice(["parse", "parse", "parse", "render", "lex"]),
                          b"".join(rng.choice(LEXEMES_NUL) for _ in range(k))))
        lines = ["%s:%d\t%s\t%s" % (p, i, k, hx(s)) for i, (p, k, s) in enumerate(cases)]
        # the same for the content of files in the template directory: loading always returns, also when component
        # files use themselves or each other (directly, in a cycle, behind a condition that is never true)
        trees = [
            [("tpl/index.tw", "<nav>@component('menu', { items: items })</nav>"),
             ("tpl/menu.tw", "<ul>@each(item in items)<li>{{ item }}@if(false)@component('menu', { items: items })@end</li>@end</ul>")],
            [("tpl/index.tw", "@component('~comment')"), ("tpl/components/comment.tw", "<c>@component('~replies')</c>"),
             ("tpl/components/replies.tw", "<r>@if(false)@component('~comment')@end</r>")],
            [("tpl/index.tw", "@component('~a')"), ("tpl/components/a.tw", "[a @component('~b')]"), ("tpl/components/b.tw", "[b]")],
            [("tpl/index.tw", "@component('~a')@slot x@end@end"), ("tpl/components/a.tw", "[a @slot @component('~a')@slot y@end@end]")],
            [("tpl/index.tw", "@use('~l')@insert('t')x@end"), ("tpl/layouts/l.tw", "@use('~l')<l>@reserve('t')</l>")],
            [("tpl/index.tw", "@use('~l')@insert('t')x@end"), ("tpl/layouts/l.tw", "<l>@reserve('t')@component('~c')</l>"),
             ("tpl/components/c.tw", "@use('~l')c")],
        ]
        for i, fs in enumerate(trees):
            files = [(n, "file", c) for n, c in fs]
            lines.append(tree_case("C08:t%d" % i, files, [op_new("tpl", ".tw"), op_string("index", "((%s (slice (str 61) (str 62))))" % hx("items"))],
                                   ["nopanic"]))
        # every prefix of a valid file as the content of a file of the directory
        for i in range({"quick": 60, "thorough": 600, "search": 120}[tier]):
            atoms = tg.template()
            cut = rng.randrange(1, len(atoms) + 1)
            src = "".join(a for a, _ in atoms[:cut])
            files = [("tpl/index.tw", "file", "ok"), ("tpl/part.tw", "file", src)]
            lines.append(tree_case("C08:p%d" % i, files, [op_new("tpl", ".tw")], ["nopanic"]))
        dist = distribution([s for _, _, s in cases])
        dist["must_be_rejected"] = sum(1 for p, _, _ in cases if p == "C08e")
        return lines, {"exhaustive": False, "distribution": dist,
                       "exhaustive_part": "all sequences of <= %d lexemes" % (3 if tier == "thorough" else 2)}

    def nontrivial(self, r):
        return len(r["case"].split("\t")[2]) >= 6


PROPS["C08"] = C08()


# ----------------------------------------------------------------------------- C09

BUILTINS = {
    "str": ["len", "split", "raw", "trim", "trimRight", "trimLeft", "upper", "lower", "capitalize", "reverse", "contains",
            "truncate", "decimal", "at", "first", "last", "repeat"],
    "arr": ["len", "join", "rand", "reverse", "slice", "shuffle", "contains", "append", "prepend"],
    "float": ["int", "str", "abs", "ceil", "floor", "round"],
    "int": ["float", "abs", "str", "len", "decimal"],
    "bool": ["binary", "then"],
}
RECEIVERS = {
    "str": ['""', '"abc"', '"héllo wörld"', '" x "', '"12"', '"-7"', '"a,b,c"', "sv", "uv"],
    "arr": ["[]", "[1, 2, 3]", '["a", "b"]', "[[1], [2]]", "[{k: 1}]", "av", "ev", "[nil, true]"],
    "float": ["0.0", "1.5", "2.5", "3.0", "fv", "gv", "100.125"],
    "int": ["0", "7", "9223372036854775807", "iv", "mv", "12345"],
    "bool": ["true", "false", "bv"],
}
ARGKINDS = {"int": ["0", "1", "2", "-1", "3", "100"], "float": ["1.5", "0.0"], "str": ['"a"', '""', '","', '"é"'],
            "bool": ["true", "false"], "nil": ["nil"], "arr": ["[1]", "[]"], "obj": ["{k: 1}", "ov"]}
HOSTILE_DATA = {
    "sv": "(str %s)" % hx("dätä <b>"), "uv": "(str %s)" % hx("\xff\xfe broken"), "av": "(slice (int 1) (str 61) (nil))",
    "ev": "(slice)", "fv": "(f64 %s)" % f64bits(-0.5), "gv": "(f64 %s)" % f64bits(1e300), "iv": "(int -9223372036854775808)",
    "mv": "(int -1)", "bv": "(bool 1)", "ov": "(map (%s (int 1)) (%s (nil)))" % (hx("k"), hx("")),
    "pv": "(ptr (int 5))", "np": "(nilptr int)", "st": "(struct (Name (str 626f62)) (Tags (tslice str (str 61) (str 62))) (P (nilptr str)))",
    "nn": "(nil)", "u8": "(uint8 255)", "u64": "(uint64 18446744073709551615)", "f32": "(f32 %s)" % f64bits(0.5),
    "deep": "(slice (map (%s (slice (ptr (struct (X (int 1))))))))" % hx("q"),
}


def hostile_data():
    return "(" + " ".join("(%s %s)" % (hx(k), v) for k, v in HOSTILE_DATA.items()) + ")"


class C09(Prop):
    timeout_ms = 4000
    rule = ("(a) untyped programs: any expression form in any position (operators, index, dot, calls, loops headers, "
            "directive arguments) over literals and data variables of every value kind, bounded loops; (b) every built-in "
            "x receivers (empty, ASCII, multi-byte, invalid UTF-8, boundary integers, nested arrays/objects) x argument "
            "kind tuples of arity <= 2 (all) and 3 (sampled) x boundary counts {MinInt64, -len-1, -len, -1, 0, 1, len-1, "
            "len, len+1, 1000, 67108865, 4611686018427387904, 9223372036854775807}; (c) data maps with nil pointers, pointers, structs, all integer widths, nested "
            "unsupported values. Boundary counts include 2^26+1, 2^62 and MaxInt64 (oversized repeat/decimal counts). "
            "Non-trivial: the program contains at least one operator, call or directive. @dump of random nested values (model = implementation wherever the model answers).")
    explanation = ("Correspondence: render model = implementation (the model marks every Go panic site with an explicit "
                   "Panic outcome). Oracle: the implementation returned output or an error, never panicked or crashed; "
                   "evaluation errors carry a line >= 1.")
    assumptions = ["infinite loops written in the template (e.g. @for(;;) with no break) are not crashes and are skipped",
                   "the goroutine stack is not modelled: the evaluator recurses to the depth of the AST (proved finite, not bounded by "
                   "a constant), and an expression or block nested some 10^6 levels deep exhausts the runtime's 1 GB stack; generated "
                   "programs nest at most a few dozen levels"]

    ATOMS = ["1", "0", "-1", "2", "7", "sv", "uv", "av", "ev", "fv", "gv", "iv", "mv", "bv", "ov", "pv", "np", "st", "nn", "u8",
             "u64", "f32", "deep", '"s"', '""', "true", "false", "nil", "3.5", "0.5", "[1,2]", "[]", "{k: 1}", "{}", "av[0]",
             "ov.k", "st.Name", "st.name", "st.Tags", "st.P", "deep[0].q", "9223372036854775807", "zz", 'ov[""]', "ov['']"]
    OPS = ["+", "-", "*", "/", "%", "==", "!=", "<", ">", "<=", ">="]

    def expr(self, rng, d=0):
        r = rng.random()
        if d > 3 or r < 0.3:
            return rng.choice(self.ATOMS)
        if r < 0.55:
            return self.expr(rng, d + 1) + " " + rng.choice(self.OPS) + " " + self.expr(rng, d + 1)
        if r < 0.62:
            return self.expr(rng, d + 1) + " ? " + self.expr(rng, d + 1) + " : " + self.expr(rng, d + 1)
        if r < 0.68:
            return "(" + self.expr(rng, d + 1) + ")"
        if r < 0.73:
            return rng.choice(["-", "!"]) + self.expr(rng, d + 1)
        if r < 0.8:
            return rng.choice(self.ATOMS + ["(" + self.expr(rng, d + 1) + ")"]) + "[" + self.expr(rng, d + 1) + "]"
        if r < 0.86:
            return rng.choice(self.ATOMS + ["(" + self.expr(rng, d + 1) + ")"]) + "." + rng.choice(["k", "Name", "x", "len", "q"])
        if r < 0.96:
            ty = rng.choice(list(BUILTINS))
            fn = rng.choice(BUILTINS[ty])
            args = ", ".join(self.expr(rng, d + 2) for _ in range(rng.choice([0, 0, 1, 1, 2])))
            return rng.choice(self.ATOMS + RECEIVERS[ty]) + "." + fn + "(" + args + ")"
        return rng.choice(self.ATOMS) + rng.choice(["++", "--"])

    def stmt(self, rng, d=0):
        r = rng.random()
        if d > 2 or r < 0.15:
            return rng.choice(["text ", "<p>", "\n"])
        if r < 0.45:
            return "{{ " + self.expr(rng) + " }}"
        if r < 0.52:
            return "{{ " + rng.choice(["x", "y", "loop", "sv", "iv"]) + " = " + self.expr(rng) + " }}"
        if r < 0.64:
            return "@if(" + self.expr(rng) + ")" + self.block(rng, d + 1) + \
                   "".join("@elseif(" + self.expr(rng) + ")" + self.block(rng, d + 1) for _ in range(rng.choice([0, 0, 1]))) + \
                   rng.choice(["", "@else" + self.block(rng, d + 1)]) + "@end"
        if r < 0.76:
            return "@each(" + rng.choice(["v", "x", "loop", "sv"]) + " in " + self.expr(rng) + ")" + self.block(rng, d + 1) + \
                   rng.choice(["", "@else" + self.block(rng, d + 1)]) + "@end"
        if r < 0.86:
            init = rng.choice(["i = 0", "", "i = 0.5", 'i = "a"', "j = 1"])
            cond = rng.choice(["i < 3", "", "i < 2.5", "false", "nil", "zz", "i < av"])
            post = rng.choice(["i++", "", "i = i + 1", "i--", "j++", 'i = "s"'])
            body = self.block(rng, d + 1)
            if cond in ("", "nil") or post in ("", "i--", "j++") or init in ("", "j = 1"):
                body += rng.choice(["@break", "@breakIf(true)"])
            return "@for(" + init + "; " + cond + "; " + post + ")" + body + rng.choice(["", "", "@else" + self.block(rng, d + 1)]) + "@end"
        if r < 0.93:
            return rng.choice(["@break", "@continue", "@breakIf(" + self.expr(rng) + ")", "@continueIf(" + self.expr(rng) + ")",
                               "{{ loop.index }}", "{{ loop.zz }}", "{{ v }}"])
        return rng.choice(["@slot", "@slot('n')", "@insert('a', " + self.expr(rng) + ")", "@reserve('a')", "@component('c', {a: " +
                           self.expr(rng) + "})", "@use('x')", "@component(" + self.expr(rng) + ")"])

    def block(self, rng, d):
        return "x" + "".join(self.stmt(rng, d) for _ in range(rng.choice([1, 1, 2])))

    def boundary(self, ty, recv):
        n = {"str": 3, "arr": 3}.get(ty, 3)
        # MinInt64 cannot be written as a literal (the digits alone overflow): it comes from the data (iv) or from arithmetic
        return ["iv", "iv + 1", "0 - 9223372036854775807 - 1", "-9223372036854775807", str(-n - 1), str(-n), "-1", "0", "1",
                str(n - 1), str(n), str(n + 1), "1000", "67108865", "4611686018427387904", "9223372036854775807"]

    def generate(self, rng, tier):
        data = hx(hostile_data())
        srcs = []
        nprog = {"quick": 6000, "thorough": 120000, "search": 20000}[tier]
        for _ in range(nprog):
            srcs.append("".join(self.stmt(rng) for _ in range(rng.choice([1, 2]))))
        kinds = list(ARGKINDS)
        for ty, fns in BUILTINS.items():
            for fn in fns:
                recvs = RECEIVERS[ty]
                tuples = [()] + [(a,) for a in kinds] + [(a, b) for a in kinds for b in kinds]
                tri = [(a, b, c) for a in kinds for b in kinds for c in kinds]
                if tier != "thorough":
                    rng.shuffle(tri)
                    tri = tri[:12]
                for tup in tuples + tri:
                    recv = rng.choice(recvs)
                    args = ", ".join(rng.choice(ARGKINDS[k]) for k in tup)
                    srcs.append("{{ %s.%s(%s) }}" % (recv if recv[0] not in "-0123456789" or True else recv, fn, args))
                for recv in recvs:
                    for b in self.boundary(ty, recv):
                        srcs.append("{{ %s.%s(%s) }}" % (recv, fn, b))
                        srcs.append("{{ %s.%s(%s, %s) }}" % (recv, fn, rng.choice(['"."', "1", "0"]), b))
        # every combination of absent @for clauses, with and without @else
        for init in ["i = 0", ""]:
            for cond in ["i < 2", "", "false"]:
                for post in ["i++", ""]:
                    for els in ["", "@else none"]:
                        for brk in ["@break", "@breakIf(true)", "{{ i }}@breakIf(i == 1)"]:
                            if init == "" and "i" in cond + post + brk:
                                srcs.append("{{ i = 0 }}@for(%s; %s; %s)x%s%s@end" % (init, cond, post, brk, els))
                            else:
                                srcs.append("@for(%s; %s; %s)x%s%s@end" % (init, cond, post, brk, els))
        # an init clause that is present but is not an assignment (any expression is allowed there), with a post clause
        for init in ["n", "n + 0", "0", "nn", '"s"', "av", "n++"]:
            for post in ["n++", "n = n + 1", "n--", "", "i++"]:
                for body in ["{{ n = n + 1 }}x", "x@break", "x{{ n = n + 1 }}@breakIf(n > 2)", "@continueIf(false){{ n = 5 }}y"]:
                    srcs.append("{{ n = 0 }}@for(%s; n < 2; %s)%s@end|{{ n }}" % (init, post, body))
        # regression corpus (fixed: e92c1d0)
        srcs.append('{{ "ab".repeat(9223372036854775807) }}')
        srcs.append('{{ 1.decimal(".", 9223372036854775807) }}')
        srcs.append('{{ "".repeat(9223372036854775807) }}')
        lines = ["C09:%d\trender\t%s\t%s" % (i, hx(s), data) for i, s in enumerate(srcs)]
        # data-binding faults
        bad = ["(chan)", "(func)", "(complex)", "(slice (int 1) (chan))", "(map (%s (func)))" % hx("k"), "(struct (F (chan)))",
               "(ptr (chan))", "(nilptr int)", "(ptr (ptr (int 3)))", "(struct (a (chan)) (B (int 1)))", "(tslice int (int 1) (int 2))",
               "(tmap str (%s (str 61)))" % hx("k"), "(slice (nilptr str) (ptr (str 61)))", "(array2)",
               # pointer chains: a nil link at any depth is nil, never a crash
               "(ptr (nilptr int))", "(ptr (ptr (nilptr str)))", "(struct (Name (str 416e6e)) (Email (ptr (nilptr str))))",
               "(slice (ptr (nilptr int)) (int 2))", "(map (%s (ptr (nilptr int))))" % hx("k"), "(ptr (ptr (ptr (int 7))))",
               "(ptr (struct (P (ptr (nilptr int))) (Q (nilptr int))))", "(nilchan)", "(nilfunc)", "(struct (Cb (nilfunc)) (N (int 1)))",
               # data that contains itself (through a pointer, a map, a slice) cannot be shown: an error, not a dead process;
               # the same pointer used twice without a cycle is ordinary data
               "(cyc)", "(cycmap)", "(cycslice)", "(cyc2)", "(slice (int 1) (cyc))", "(map (%s (cycmap)))" % hx("k"), "(shared)"]
        for i, b in enumerate(bad):
            for src in ["{{ v }}", "x", "{{ v.F }}", "@each(e in v){{ e }}@end", "{{ v.email ? 'yes' : 'no' }}{{ v.p }}{{ v[0] }}", "@dump(v)"][:5]:
                lines.append("C09:d%d_%d\trender\t%s\t%s" % (i, len(lines), hx(src), hx("((%s %s))" % (hx("v"), b))))
        # @dump of every kind of value (nested arrays / objects, strings with quotes, control characters and markup, floats,
        # data-supplied values, results of built-ins): the model has Object.Dump and the frame; a failing argument and bytes
        # >= 128 in a string are not modelled (the run still demands: no panic)
        DATOMS = ["1", "-7", "0", "2.5", "-0.5", "1000000.0", "'a'", "\"q'x\"", "'<b>&'", "''", "true", "false", "nil", "nn", "sv", "av", "ov", "bv",
                  "[ ]", "{}", "1 + 2", "'a' + 'b'", "nn * 2.5", "av[0]", "av.len()", "sv.upper()", "[1, 2].reverse()", "nn > 2", "!bv",
                  "nn > 2 ? 'y' : [1]", "9223372036854775807", "1 / 3.0", "'tab\\there'", "'é'", "zz", "1 / 0"]

        def dval(d):
            k = rng.random()
            if d <= 0 or k < 0.5:
                return rng.choice(DATOMS)
            if k < 0.75:
                return "[" + ", ".join(dval(d - 1) for _ in range(rng.choice([0, 1, 2, 3]))) + "]"
            ks = rng.sample(["a", "b", "zeta", "Alpha", "k1", "id", "ID"], rng.choice([0, 1, 2, 3]))
            return "{" + ", ".join("%s: %s" % (k_, dval(d - 1)) for k_ in ks) + "}"
        for i in range({"quick": 300, "thorough": 4000, "search": 600}[tier]):
            args = ", ".join(dval(3) for _ in range(rng.choice([0, 1, 1, 2, 3])))
            src = rng.choice(["", "x", "{{ nn }}"]) + "@dump(%s)" % args + rng.choice(["", " y", "@dump(1)"])
            lines.append("C09:p%d\trender\t%s\t%s" % (i, hx(src), data))
        return lines, {"exhaustive": False, "distribution": distribution([s.encode() for s in srcs]),
                       "builtin_cases": sum(1 for s in srcs if s.startswith("{{ ") and "(" in s)}

    def classify(self, r, known):
        f = r["case"].split("\t")
        for k in known:
            if k.get("witness_hex") and k["witness_hex"] == f[2]:
                return k
        return None


PROPS["C09"] = C09()


# ----------------------------------------------------------------------------- C10

class C10(Prop):
    rule = ("string literal contents over the alphabet { < > & ; # \" ' a é SP } exhaustively up to length 3 (quick) / 5 "
            "(thorough) plus existing entities (&amp; &#34; &lt; &#39; &quot;) and random longer strings x both quote "
            "styles x usage contexts: printed directly, concatenated with another literal, stored in a variable, placed "
            "in an array and indexed, through a ternary, with raw(), and - in template trees - written directly as an insert "
            "argument, inside an insert block, as a component argument and inside a slot body. Expected output from the extracted "
            "specification (esc_spec; raw() = original text). Non-trivial: the content has at least one of < > & \" '.")
    explanation = ("Theorems on the specification escaper: output has no raw '<' or '>', every '&' starts one of "
                   "&amp; &lt; &gt;, quotes are kept, unescaping gives back the literal; the model's evalString "
                   "(html.EscapeString then quote restoration) equals the specification escaper. Correspondence: render "
                   "model = implementation. Oracle: implementation output = specification output.")
    assumptions = ["literal contents contain no backslash and no NUL (the lexer's quote unescaping is C19/C08's subject)"]
    ALPHA = ["<", ">", "&", ";", "#", '"', "'", "a", "é", " "]
    ENT = ["&amp;", "&#34;", "&lt;", "&#39;", "&quot;", "&gt;", "&#x3c;", "&", "&&", "<b>", "</b>", "&#38;"]

    def generate(self, rng, tier):
        contents = []
        maxlen = {"quick": 3, "thorough": 5, "search": 3}[tier]
        for n in range(0, maxlen + 1):
            for t in itertools.product(self.ALPHA, repeat=n):
                contents.append("".join(t))
        contents += self.ENT
        # bytes that are not valid UTF-8 where they stand (written with surrogate escapes: hx() turns them into the raw
        # bytes) next to the characters that are escaped: every byte but < > & passes through unchanged
        INV = ["\udce9", "\udcff", "\udc80", "\udce2\udc82", "\udcf0\udc9f", "caf\udce9", "\udcc3"]
        for inv in INV:
            for a in ["", "<", ">", "&", "<b>", "&amp;", "a"]:
                for b in ["", "<", "&", "</b>", ";"]:
                    contents.append(a + inv + b)
                    contents.append(inv + a + inv + b)
        for _ in range({"quick": 2000, "thorough": 30000, "search": 6000}[tier]):
            contents.append("".join(rng.choice(self.ALPHA + self.ENT + (INV if rng.random() < 0.3 else [])) for _ in range(rng.choice([2, 4, 6, 10, 16]))))
        lines = []
        for i, c in enumerate(contents):
            dq = rng.choice(["0", "1"])
            lit = "(str %s %s)" % (hx(c), dq)
            other = "(str %s %s)" % (hx(rng.choice(["", "x", "<", "&amp;", "'"])), rng.choice(["0", "1"]))
            ctxs = [("xexpr", lit), ("xexpr", "(bin add %s %s)" % (lit, other)), ("xexpr", "(bin add %s %s)" % (other, lit)),
                    ("xassign", lit), ("xexpr", "(idx (arr %s %s) (int 0))" % (lit, other)),
                    ("xexpr", "(tern (bool 1) %s %s)" % (lit, other)), ("xexpr", "(call %s raw)" % lit),
                    ("xexpr", "(bin eq %s %s)" % (lit, lit))]
            picks = ctxs if (tier == "thorough" or len(c) <= 2) else [ctxs[0], ctxs[6], rng.choice(ctxs[1:6])]
            for j, (kind, tree) in enumerate(picks):
                seps = ",".join(str(rng.randrange(8)) for _ in range(12))
                lines.append("\t".join(["C10:%d_%d" % (i, j), kind, hx(tree), "-", hx(seps), "-"]))
        # raw() gives a NEW unescaped value: the stored literal is still escaped wherever it is used afterwards
        special = [c for c in contents if any(x in c for x in "<>&") and len(c) <= 12]
        rng.shuffle(special)
        for i, c in enumerate(special[: {"quick": 300, "thorough": 3000, "search": 600}[tier]]):
            lit = "(str %s %s)" % (hx(c), rng.choice(["0", "1"]))
            shapes = [
                B(["(assign x %s)" % lit, "(print (call (var x) raw))", T("|"), "(print (var x))", T("|"), "(print (call (var x) raw))", T("|"),
                   "(print (bin add (var x) (var x)))"]),
                B(["(assign s %s)" % lit, "(for (init i (int 0)) (bin lt (var i) (int 2)) (inc i) %s none)" % B(["(print (call (var s) raw))", T(",")]),
                   "(print (var s))"]),
                B(["(assign a (arr %s))" % lit, "(print (call (idx (var a) (int 0)) raw))", T("|"), "(print (idx (var a) (int 0)))", T("|"),
                   "(print (var a))"]),
                B(["(each v (arr %s %s) %s none)" % (lit, lit, B(["(print (call (var v) raw))", T(":"), "(print (var v))", T(";")]))]),
            ]
            lines.append("C10:r%d\txtpl\t%s\t-" % (i, hx(shapes[i % len(shapes)])))
        # the literal written directly as an insert argument and as a component argument: the same escaped text as when it
        # is printed in place (the printing in place is what the cases above compare with the specification)
        tcount = 0
        for c in special[: {"quick": 120, "thorough": 1500, "search": 300}[tier]] + ["<b>&", "a<b", "&amp;", "<", ">", "&"]:
            if "'" in c and '"' in c:
                continue
            q = '"' if "'" in c else "'"
            lit = q + c + q
            files = [("tpl/layouts/main.tw", "file", "<t>@reserve('t')</t>"), ("tpl/components/c.tw", "file", "<c>{{ v }}|@slot</c>"),
                     ("tpl/page.tw", "file", "@use('~main')@insert('t', %s)" % lit),
                     ("tpl/page2.tw", "file", "@component('~c', {v: %s})@slot %s @end@end" % (lit, "{{ %s }}" % lit)),
                     ("tpl/page3.tw", "file", "@use('~main')@insert('t'){{ %s }}@end" % lit)]
            ops = [op_new("tpl", ".tw"), op_string("page"), op_evalstr("<t>{{ %s }}</t>" % lit), op_string("page2"),
                   op_evalstr("<c>{{ %s }}| {{ %s }} </c>" % (lit, lit)), op_string("page3")]
            lines.append(tree_case("C10:t%d" % tcount, files, ops, ["ok:0", "ok:1", "ok:2", "eq:1:2", "ok:3", "eq:3:4", "eq:5:2", "nopanic"]))
            tcount += 1
        return lines, {"exhaustive": False, "distribution": distribution([c.encode("utf-8", "surrogateescape") for c in contents]),
                       "exhaustive_part": "all contents over 10 symbols up to length %d" % maxlen}

    def nontrivial(self, r):
        f = r["case"].split("\t")
        return any(x in f[2] for x in ("3c", "3e", "26", "22", "27"))


PROPS["C10"] = C10()


# ----------------------------------------------------------------------------- template specs (C02, C03, C04)

def T(s):
    return "(text %s)" % hx(s)


def B(nodes):
    return "(b %s)" % " ".join(nodes) if nodes else "(b)"


# (expression, truthiness) with every value kind; None = evaluation fails
CONDS = [
    ("(bool 1)", True), ("(bool 0)", False), ("(nil)", False), ("(int 0)", False), ("(int 1)", True), ("(neg (int 1))", True),
    ("(float 0 1)", False), ("(float 5 1)", True), ("(str - 1)", False), ("(str %s 1)" % hx("a"), True),
    ("(str %s 0)" % hx("0"), True), ("(arr)", True), ("(arr (int 0))", True), ("(obj)", True), ("(var dt)", True),
    ("(var df)", False), ("(var dz)", False), ("(var dfz)", False), ("(var de)", False), ("(var dn)", False),
    ("(var da)", True), ("(var dea)", True), ("(var dobj)", True), ("(var ds)", True), ("(var dnegz)", False),
    ("(bin eq (var di) (int 3))", True), ("(bin lt (var di) (int 3))", False), ("(var zz)", None),
    ("(bin add (int 1) (str %s 1))" % hx("s"), None), ("(bin div (int 1) (int 0))", None), ("(prop (var di) k)", None),
    # every non-zero float is truthy, however small: tiny data values, a tiny literal, an arithmetic residue, a denormal
    ("(var dtiny)", True), ("(var dntiny)", True), ("(var ddenorm)", True), ("(float 1 12)", True),
    ("(bin sub (bin add (float 1 1) (float 2 1)) (float 3 1))", True), ("(bin sub (float 5 1) (float 5 1))", False),
    # not-a-number and the infinities are not zero: truthy (data-supplied; a template cannot write them)
    ("(var dnan)", True), ("(var dinf)", True), ("(var dninf)", True),
]
COND_DATA = {
    "dt": "(bool 1)", "df": "(bool 0)", "dz": "(int 0)", "dfz": "(f64 %s)" % f64bits(0.0), "de": "(str -)", "dn": "(nil)",
    "da": "(slice (int 1))", "dea": "(slice)", "dobj": "(map)", "ds": "(str %s)" % hx("x"), "di": "(int 3)",
    "dnegz": "(f64 %s)" % f64bits(-0.0), "dtiny": "(f64 %s)" % f64bits(1e-12), "dntiny": "(f64 %s)" % f64bits(-2.5e-10),
    "ddenorm": "(f64 %s)" % f64bits(5e-324),
    "dnan": "(f64 %s)" % f64bits(float("nan")), "dinf": "(f64 %s)" % f64bits(float("inf")), "dninf": "(f64 %s)" % f64bits(float("-inf")),
    # floats at which adding one half is not exact
    "fhm": "(f64 %s)" % f64bits(0.49999999999999994), "fnhm": "(f64 %s)" % f64bits(-0.49999999999999994),
    "fo52": "(f64 %s)" % f64bits(4503599627370497.0), "fno52": "(f64 %s)" % f64bits(-4503599627370497.0),
    "fo53": "(f64 %s)" % f64bits(9007199254740991.0), "fe52": "(f64 %s)" % f64bits(4503599627370498.0),
    "fh3": "(f64 %s)" % f64bits(2251799813685248.5), "f25": "(f64 %s)" % f64bits(2.5), "fn25": "(f64 %s)" % f64bits(-2.5),
    "arr3": "(slice (int 10) (int 20) (int 30))", "strs": "(slice (str 61) (str 62))", "empty": "(slice)",
    "users": "(slice (struct (Name (str 616e6e)) (Age (int 30))) (struct (Name (str 626f62)) (Age (int 7))))",
    "nested": "(slice (slice (int 1) (int 2)) (slice) (slice (int 3)))", "px": "(int 5)", "ps": "(str %s)" % hx("pre"),
}


def cond_data():
    return "(" + " ".join("(%s %s)" % (hx(k), v) for k, v in COND_DATA.items()) + ")"


class C02(Prop):
    rule = ("specification templates printed by the extracted printer and run by the extracted big-step semantics: "
            "every branch shape with 0..3 @elseif and with/without @else x condition vectors drawn from 31 condition "
            "expressions of every value kind (literals and data-supplied; 4 of them fail to evaluate) placed so that "
            "every position is chosen, including failing conditions after the chosen branch; nesting to depth 3 inside "
            "each other and inside @each; empty bodies; text before, between and after; the same truthiness table "
            "through the ternary, @breakIf and @continueIf. Non-trivial: at least one @elseif or nesting; distinct = "
            "distinct source.")
    explanation = ("Theorems: on the specification, the first truthy branch is rendered, later conditions are not "
                   "evaluated, text around the construct is unaffected; one truthiness predicate serves @if, ternary, "
                   "@breakIf, @continueIf and equals the model's isTruthy. Correspondence: render model = implementation. "
                   "Oracle: implementation output = specification output, error iff the specification says so.")
    assumptions = ["@break/@continue appear only inside loops"]

    def branch_body(self, rng, tag, depth):
        nodes = [T(tag)]
        if depth > 0 and rng.random() < 0.35:
            nodes.append(self.if_node(rng, depth - 1))
        if rng.random() < 0.15:
            nodes = []
        return nodes

    def if_node(self, rng, depth, force=None):
        n_elif = rng.choice([0, 0, 1, 2, 3]) if force is None else force[0]
        has_else = rng.random() < 0.5 if force is None else force[1]
        conds = [rng.choice(CONDS) for _ in range(1 + n_elif)]
        thn = B(self.branch_body(rng, "T", depth))
        elifs = " ".join("(%s %s)" % (conds[i + 1][0], B(self.branch_body(rng, "E%d" % i, depth))) for i in range(n_elif))
        els = B(self.branch_body(rng, "L", depth)) if has_else else "none"
        return "(if %s %s (elifs %s) %s)" % (conds[0][0], thn, elifs, els)

    def generate(self, rng, tier):
        data = hx(cond_data())
        tpls = []
        # systematic: every shape x every position of the first truthy condition x failing conditions later
        truthy = [c for c in CONDS if c[1] is True]
        falsy = [c for c in CONDS if c[1] is False]
        failing = [c for c in CONDS if c[1] is None]
        for n_elif in range(0, 4):
            for has_else in (False, True):
                for first in range(0, n_elif + 2):          # index of first truthy; n_elif+1 = none
                    for rep in range({"quick": 6, "thorough": 40, "search": 10}[tier]):
                        cs = []
                        for i in range(n_elif + 1):
                            if i < first:
                                cs.append(rng.choice(falsy))
                            elif i == first:
                                cs.append(rng.choice(truthy))
                            else:
                                cs.append(rng.choice(truthy + falsy + failing + failing))
                        if rep % 5 == 4 and first <= n_elif:
                            cs[rng.randrange(0, first + 1)] = rng.choice(failing)   # a failing condition that IS evaluated
                        thn = B([T("T")] if rng.random() < 0.85 else [])
                        elifs = " ".join("(%s %s)" % (cs[i + 1][0], B([T("E%d" % i)] if rng.random() < 0.85 else []))
                                         for i in range(n_elif))
                        els = (B([T("L")]) if rng.random() < 0.85 else B([])) if has_else else "none"
                        node = "(if %s %s (elifs %s) %s)" % (cs[0][0], thn, elifs, els)
                        tpls.append(B([T("<"), node, T(">")]))
        # nesting, inside each, truthiness through ternary / breakIf / continueIf
        for _ in range({"quick": 1500, "thorough": 20000, "search": 5000}[tier]):
            k = rng.random()
            if k < 0.5:
                tpls.append(B([T("a"), self.if_node(rng, 3), T("b"), self.if_node(rng, 2), T("c")]))
            elif k < 0.75:
                body = [T("["), self.if_node(rng, 2), T("]")]
                tpls.append(B([T("a"), "(each v (var arr3) %s none)" % B(body), T("z")]))
            elif k < 0.85:
                c = rng.choice(CONDS)
                tpls.append(B([T("t:"), "(print (tern %s (str %s 1) (str %s 1)))" % (c[0], hx("Y"), hx("N"))]))
            else:
                c = rng.choice(CONDS)
                kind = rng.choice(["breakif", "continueif"])
                body = [T("("), "(print (var v))", "(%s %s)" % (kind, c[0]), T(")")]
                tpls.append(B(["(each v (var arr3) %s none)" % B(body), T("$")]))
        lines = ["C02:%d\txtpl\t%s\t%s" % (i, hx(t), data) for i, t in enumerate(tpls)]
        # raw sources: blanks and line breaks between a directive keyword and its "(" change nothing
        RAW = [("true", True), ("false", False), ("0", False), ("1", True), ('""', False), ('"x"', True), ("nil", False),
               ("dz", False), ("dt", True), ("dtiny", True), ("0.0", False)]
        k = 0
        for rep in range({"quick": 150, "thorough": 1500, "search": 300}[tier]):
            ws = [rng.choice(["", " ", "\n", "\t", "  ", " \n "]) for _ in range(4)]
            a, b = rng.choice(RAW), rng.choice(RAW)
            shape = rep % 5
            if shape == 0:
                src = "<@if%s(%s)A@elseif%s(%s)B@else C@end>" % (ws[0], a[0], ws[1], b[0])
                want = "<" + ("A" if a[1] else "B" if b[1] else " C") + ">"
            elif shape == 1:
                src = "<@if%s(%s)A@elseif%s(%s)B@end>" % (ws[0], a[0], ws[1], b[0])
                want = "<" + ("A" if a[1] else "B" if b[1] else "") + ">"
            elif shape == 2:
                src = "@each%s(n in [1, 2, 3])@continueIf%s(n == 2){{ n }}@end|@each(n in [1, 2, 3])@breakIf%s(n == 3){{ n }}@end" % (ws[0], ws[1], ws[2])
                want = "13|12"
            elif shape == 3:
                src = "@for%s(i = 0; i < 3; i++)@breakIf%s(%s){{ i }}@end" % (ws[0], ws[1], a[0])
                want = "" if a[1] else "012"
            else:
                src = "@each(v in arr3)[@if%s(v == 20)@continue@elseif%s(%s)x@end{{ v }}]@end" % (ws[0], ws[1], a[0])
                want = ("[x10][" + "[x30]") if a[1] else "[10][[30]"
            lines.append(tree_case("C02:w%d" % k, [], [op_evalstr(src, cond_data())], ["out:0:" + (hx(want) if want else "-"), "nopanic"]))
            k += 1
        dist = collections.Counter()
        for t in tpls:
            dist["elifs=%d" % min(3, t.count("(elifs (") and t.split("(elifs ")[1].count("(b") or 0)] += 1
        return lines, {"exhaustive": False, "distribution": dict(dist), "conditions": len(CONDS)}

    def nontrivial(self, r):
        return "656c7365" in r["case"] or r["case"].count("406966") >= 2    # "else" / two "@if"


PROPS["C02"] = C02()


class C03(Prop):
    rule = ("specification templates: @each over arrays of length 0..5 (ints, strings, data-supplied structs, nested "
            "arrays) printing loop.index/iter/first/last, with @break/@continue/@breakIf/@continueIf at every position "
            "of a 3-statement body, also under one and two nested @if/@elseif; loops nested to depth 2 with both using "
            "loop.*; @else bodies (with control directives acting on the enclosing loop); @for with bounds -2..3, "
            "steps ++ / -- / assignment, absent clauses with @break; iterating non-arrays. Non-trivial: a control "
            "directive or nesting is present; distinct = distinct source.")
    explanation = ("Theorems: on the specification the i-th pass sees index=i, iter=i+1, first=(i=0), last=(i=n-1); break "
                   "ends the innermost loop after what preceded it, continue skips the rest of the pass; the model's "
                   "marker-object scan through nested Blocks equals the specification's signals. Correspondence: render "
                   "model = implementation. Oracle: implementation output = specification output.")
    assumptions = ["@break/@continue appear only inside loops; a loop's @else contains them only when another loop encloses it",
                   "the post clause of @for updates the variable bound by its init clause"]

    ARRS = ["(arr)", "(arr (int 7))", "(arr (int 1) (int 2))", "(arr (int 1) (int 2) (int 3))",
            "(arr (int 1) (int 2) (int 3) (int 4))", "(arr (int 1) (int 2) (int 3) (int 4) (int 5))", "(var arr3)", "(var strs)",
            "(var empty)", "(arr (str %s 1) (str %s 1) (str %s 1))" % (hx("a"), hx("b"), hx("c"))]

    def meta(self):
        return ["(print (prop (var loop) index))", T("/"), "(print (prop (var loop) iter))", T("/"),
                "(print (prop (var loop) first))", "(print (prop (var loop) last))"]

    def ctl(self, rng, var):
        k = rng.choice(["break", "continue", "breakif", "continueif"])
        if k in ("break", "continue"):
            c = "(%s)" % k
            # make it conditional so that several passes happen
            cond = rng.choice(["(bin eq (prop (var loop) index) (int 1))", "(prop (var loop) last)", "(bool 1)",
                               "(bin gt (prop (var loop) iter) (int 2))", "(prop (var loop) first)"])
            w = rng.random()
            if w < 0.4:
                return "(if %s %s (elifs) none)" % (cond, B([T("!"), c, T("?")]))
            if w < 0.6:
                return "(if (bool 0) %s (elifs (%s %s)) none)" % (B([T("n")]), cond, B([c]))
            if w < 0.8:
                return "(if %s %s (elifs) none)" % (cond, B(["(if (bool 1) %s (elifs) none)" % B([T("~"), c])]))
            return c
        cond = rng.choice(["(bin eq (prop (var loop) index) (int 1))", "(prop (var loop) last)", "(bool 1)", "(bool 0)", "(nil)",
                           "(bin ge (prop (var loop) iter) (int 2))", "(int 0)", "(str - 1)", "(str %s 1)" % hx("x")])
        return "(%s %s)" % (k, cond)

    def each(self, rng, depth, var):
        body = [T("["), "(print (var %s))" % var, T(":")] + (self.meta() if rng.random() < 0.6 else []) + [T("]")]
        if rng.random() < 0.7:
            body.insert(rng.randrange(len(body) + 1), self.ctl(rng, var))
        if depth > 0 and rng.random() < 0.5:
            inner = self.each(rng, depth - 1, var + "i")
            body.insert(rng.randrange(len(body) + 1), inner)
            if rng.random() < 0.5:
                body.append("(print (prop (var loop) index))")      # the outer loop object is restored
        arr = rng.choice(self.ARRS)
        els = "none"
        if rng.random() < 0.4:
            eb = [T("EMPTY")]
            if var != "v" and rng.random() < 0.5:                  # an enclosing loop exists
                eb.append(rng.choice(["(break)", "(continue)", "(breakif (bool 1))", "(continueif (prop (var loop) first))"]))
                eb.append(T("after"))
            els = B(eb)
        return "(each %s %s %s %s)" % (var, arr, B(body), els)

    def forloop(self, rng, var="i", nested=False):
        lo, hi = rng.randrange(-2, 4), rng.randrange(-2, 4)
        up = rng.random() < 0.7
        init = "(init %s %s)" % (var, "(int %d)" % lo if lo >= 0 else "(neg (int %d))" % -lo)
        bound = "(int %d)" % hi if hi >= 0 else "(neg (int %d))" % -hi
        cond = "(bin %s (var %s) %s)" % (rng.choice(["lt", "le"]) if up else rng.choice(["gt", "ge"]), var, bound)
        post = rng.choice(["(inc %s)", "(set %s (bin add (var %s) (int 1)))"] if up else
                          ["(dec %s)", "(set %s (bin sub (var %s) (int 1)))"])
        post = post % ((var,) * post.count("%s"))
        body = [T("("), "(print (var %s))" % var, T(")")]
        if rng.random() < 0.5:
            c = rng.choice(["(breakif (bin eq (var %s) (int 1)))" % var, "(continueif (bin eq (var %s) (int 0)))" % var,
                            "(if (bin eq (var %s) (int 2)) %s (elifs) none)" % (var, B(["(break)"]))])
            body.insert(rng.randrange(len(body) + 1), c)
        els = B([T("NONE")]) if rng.random() < 0.4 else "none"
        if nested and rng.random() < 0.6:
            # the @else of a loop that is false at entry acts on the ENCLOSING loop: its control directives must reach it
            eb = [T("NONE"), rng.choice(["(break)", "(continue)", "(breakif (bool 1))", "(continueif (prop (var loop) first))",
                                          "(if (bin ge (prop (var loop) index) (int 1)) %s (elifs) none)" % B(["(break)"])]), T("after")]
            els = B(eb)
        w = rng.random()
        if w < 0.12:      # absent condition: needs a break
            body.append("(breakif (bin ge (var %s) (int 3)))" % var if up else "(breakif (bin le (var %s) (neg (int 3))))" % var)
            cond = "none"
        elif w < 0.2:     # absent post: the body advances the variable itself is not expressible, break instead
            body.append("(break)")
            post = "none"
        return "(for %s %s %s %s %s)" % (init, cond, post, B(body), els)

    def generate(self, rng, tier):
        data = hx(cond_data())
        tpls = []
        # systematic: every length x every position of each control directive in a 3-statement body
        for n in range(0, 6):
            arr = "(arr %s)" % " ".join("(int %d)" % (i + 1) for i in range(n)) if n else "(arr)"
            for pos in range(0, 4):
                for ctl in ["(break)", "(continue)", "(breakif (bin eq (var v) (int 2)))", "(continueif (bin eq (var v) (int 2)))",
                            "(if (bin eq (var v) (int 3)) %s (elifs) none)" % B(["(break)"]),
                            "(if (bool 0) (b) (elifs ((prop (var loop) last) %s)) none)" % B(["(continue)"]),
                            "(if (bin gt (var v) (int 1)) %s (elifs) none)" % B(["(if (bool 1) %s (elifs) none)" % B(["(break)"])])]:
                    body = [T("a"), "(print (var v))", T("b")]
                    body.insert(pos, ctl)
                    for els in ("none", B([T("E")])):
                        tpls.append(B([T("<"), "(each v %s %s %s)" % (arr, B(body + self.meta()), els), T(">")]))
        # loops whose passes emit nothing: the @else body belongs to "no pass at all" (empty array, condition false at
        # entry), never to "nothing was printed"
        quiet = [B(["(continue)", T("never")]), B(["(continueif (bool 1))", T("never")]), B(["(if (bool 0) %s (elifs) none)" % B([T("never")])]),
                 B(["(if (bin lt (var i) (int 0)) %s (elifs) none)" % B(["(print (var i))"])]), B(["(assign q (int 1))"]),
                 B(["(continueif (bin lt (var i) (int 9)))", "(print (var i))"])]
        for body in quiet:
            for n in range(0, 4):
                for els in (B([T("E")]), "none"):
                    tpls.append(B([T("["), "(for (init i (int 0)) (bin lt (var i) (int %d)) (inc i) %s %s)" % (n, body, els), T("]")]))
                    tpls.append(B([T("["), "(for (init i (int %d)) (bin gt (var i) (int 0)) (dec i) %s %s)" % (n, body, els), T("]")]))
                    arr = "(arr %s)" % " ".join("(int %d)" % (j + 1) for j in range(n)) if n else "(arr)"
                    tpls.append(B([T("["), "(each i %s %s %s)" % (arr, body, els), T("]")]))
        for _ in range({"quick": 2500, "thorough": 40000, "search": 8000}[tier]):
            k = rng.random()
            if k < 0.55:
                tpls.append(B([T("<"), self.each(rng, 2, "v"), T(">")]))
            elif k < 0.8:
                tpls.append(B([T("<"), self.forloop(rng), T(">")]))
            elif k < 0.93:
                inner = self.forloop(rng, "j", nested=True)
                tpls.append(B(["(each v (var arr3) %s none)" % B([T("["), "(print (var v))", T(":"), inner, T(";"), "(print (prop (var loop) iter))", T("]")])]))
            else:
                bad = rng.choice(["(int 5)", "(str %s 1)" % hx("abc"), "(var dobj)", "(nil)", "(var zz)", "(bool 1)"])
                tpls.append(B([T("<"), "(each v %s %s none)" % (bad, B([T("x")])), T(">")]))
        lines = ["C03:%d\txtpl\t%s\t%s" % (i, hx(t), data) for i, t in enumerate(tpls)]
        dist = collections.Counter()
        for t in tpls:
            dist["each" if "(each" in t else "for"] += 1
            if "(break" in t or "(continue" in t:
                dist["with_control"] += 1
        return lines, {"exhaustive": False, "distribution": dict(dist)}

    def nontrivial(self, r):
        c = r["case"]
        return "40627265616b" in c or "40636f6e74696e7565" in c or c.count("4065616368") + c.count("40666f72") >= 2


PROPS["C03"] = C03()


class C04(Prop):
    rule = ("specification templates: sequences of up to 4 assignments and reads over the names {x, y} placed at every "
            "nesting position of skeletons built from @if / @elseif / @else / @each / @for nested to depth 2; values of "
            "the types int, float, string, bool, nil, array, object in all ordered pairs for re-assignment and for "
            "loop-variable binding; data maps pre-binding any subset of the names; the reserved name loop as "
            "assignment target, loop variable and data key. Non-trivial: at least one assignment inside a nested "
            "block; distinct = distinct source + data.")
    explanation = ("Theorems: Env set/get invariants by induction over operation sequences - a nested block never "
                   "changes what the enclosing block sees, every name's type is stable under successful assignments, "
                   "'loop' is never assignable; the model's statement evaluation leaves all outer frames unchanged. "
                   "Correspondence: render model = implementation. Oracle: implementation output = specification output.")
    TYPES = {"int": ["(int 1)", "(int 2)"], "float": ["(float 15 1)", "(float 25 1)"], "str": ["(str %s 1)" % hx("s"), "(str %s 1)" % hx("t")],
             "bool": ["(bool 1)", "(bool 0)"], "nil": ["(nil)"], "arr": ["(arr (int 1))", "(arr)"], "obj": ["(obj (k (int 1)))"]}
    DATAV = {"int": "(int 9)", "float": "(f64 %s)" % f64bits(0.5), "str": "(str %s)" % hx("d"), "bool": "(bool 1)", "nil": "(nil)",
             "arr": "(slice (int 4))", "obj": "(map (%s (int 2)))" % hx("k")}

    def val(self, rng, ty):
        return rng.choice(self.TYPES[ty])

    def op(self, rng, names):
        n = rng.choice(names)
        k = rng.random()
        if k < 0.5:
            return "(assign %s %s)" % (n, self.val(rng, rng.choice(list(self.TYPES))))
        if k < 0.6:
            return "(assign %s (bin add (var %s) (int 1)))" % (n, n)
        return "(print (var %s))" % n

    def seq(self, rng, names, k):
        out = []
        for _ in range(k):
            out += [self.op(rng, names), T(",")]
        return out

    def skeleton(self, rng, depth, names):
        inner = self.seq(rng, names, rng.choice([1, 2]))
        if depth > 0 and rng.random() < 0.7:
            inner.insert(rng.randrange(len(inner) + 1), self.skeleton(rng, depth - 1, names))
        k = rng.random()
        if k < 0.35:
            return "(if (bool 1) %s (elifs) none)" % B(inner)
        if k < 0.5:
            return "(if (bool 0) %s (elifs ((bool 1) %s)) %s)" % (B(self.seq(rng, names, 1)), B(inner), B(self.seq(rng, names, 1)))
        if k < 0.6:
            return "(if (bool 0) %s (elifs) %s)" % (B(self.seq(rng, names, 1)), B(inner))
        if k < 0.74:
            lv = rng.choice(["x", "y", "e", "loop"] if rng.random() < 0.3 else ["e", "x"])
            arr = rng.choice(["(arr (int 1) (int 2))", "(arr (str %s 1))" % hx("q"), "(arr (float 5 1))", "(var arr3)", "(var strs)"])
            return "(each %s %s %s none)" % (lv, arr, B(inner + ["(print (var %s))" % lv]))
        if k < 0.82:
            # nothing to loop over: the @else body is a block of its own, like any other
            lv = rng.choice(["e", "x", "y"])
            arr = rng.choice(["(arr)", "(var empty)"])
            return "(each %s %s %s %s)" % (lv, arr, B(self.seq(rng, names, 1)), B(inner))
        var = rng.choice(["i", "x", "y"])
        if k < 0.88:
            return "(for (init %s (int 5)) (bin lt (var %s) (int 2)) (inc %s) %s %s)" % (var, var, var, B(self.seq(rng, names, 1)), B(inner))
        return "(for (init %s (int 0)) (bin lt (var %s) (int 2)) (inc %s) %s none)" % (var, var, var, B(inner))

    def generate(self, rng, tier):
        cases = []
        names = ["x", "y"]
        types = list(self.TYPES)
        # systematic: re-assignment type pairs, same scope / nested / loop variable
        for a in types:
            for b in types:
                va, vb = self.TYPES[a][0], self.TYPES[b][-1]
                for shape in range(6):
                    if shape == 0:
                        t = B(["(assign x %s)" % va, "(assign x %s)" % vb, "(print (var x))"])
                    elif shape == 1:
                        t = B(["(assign x %s)" % va, "(if (bool 1) %s (elifs) none)" % B(["(assign x %s)" % vb, "(print (var x))"]), T("|"),
                               "(print (var x))"])
                    elif shape == 2:
                        t = B(["(assign x %s)" % va, "(if (bool 1) %s (elifs) none)" % B(
                            ["(if (bool 1) %s (elifs) none)" % B(["(assign x %s)" % vb, "(print (var x))"])]), T("|"), "(print (var x))"])
                    elif shape == 3:
                        t = B(["(assign x %s)" % va, "(each x (arr %s) %s none)" % (vb, B(["(print (var x))"])), T("|"), "(print (var x))"])
                    elif shape == 4:
                        t = B(["(assign x %s)" % va, "(each e (arr (int 1)) %s none)" % B(
                            ["(if (bool 1) %s (elifs) none)" % B(["(each x (arr %s) %s none)" % (vb, B(["(print (var x))"]))])]),
                               "(print (var x))"])
                    else:
                        t = B(["(if (bool 1) %s (elifs) none)" % B(["(assign x %s)" % va]), "(assign x %s)" % vb, "(print (var x))"])
                    for pre in (None, a, b):
                        d = "((%s %s))" % (hx("x"), self.DATAV[pre]) if pre else "-"
                        cases.append((t, d))
        # a re-binding of the SAME type in a nested block shadows the outer / data binding for everything nested deeper,
        # and only there
        for a in types:
            v0, v1 = self.TYPES[a][0], self.TYPES[a][-1]
            deep = "(if (bool 1) %s (elifs) none)" % B(["(print (var x))"])
            deep2 = "(each q (arr (int 1) (int 2)) %s none)" % B(["(print (var x))"])
            shapes = [
                B(["(assign x %s)" % v0, "(if (bool 1) %s (elifs) none)" % B(["(assign x %s)" % v1, deep, "(print (var x))"]), T("|"), "(print (var x))"]),
                B(["(assign x %s)" % v0, "(if (bool 1) %s (elifs) none)" % B(["(assign x %s)" % v1, deep2]), T("|"), "(print (var x))"]),
                B(["(assign x %s)" % v0, "(each x (arr %s %s) %s none)" % (v1, v1, B([deep, T(";")])), T("|"), "(print (var x))"]),
                B(["(assign x %s)" % v0, "(for (init i (int 0)) (bin lt (var i) (int 2)) (inc i) %s none)" % B(["(assign x %s)" % v1, deep]), T("|"), "(print (var x))"]),
            ]
            for t in shapes:
                cases.append((t, "-"))
                cases.append((t, "((%s %s))" % (hx("x"), self.DATAV[a])))
                # the outer binding only comes from the data map
                cases.append((t.replace("(assign x %s)" % v0, "", 1) if v0 != v1 else t, "((%s %s))" % (hx("x"), self.DATAV[a])))
        # what a loop body assigns stays visible in the later passes of the same loop (one scope per loop, not per
        # pass) and is gone after the loop; a loop variable is one variable for all passes, so an element of another
        # type than the first fails the render
        for outer in ["(assign seen (int 0))", ""]:
            for loop in ["(each q (arr (int 1) (int 2) (int 3)) %s none)", "(for (init q (int 1)) (bin le (var q) (int 3)) (inc q) %s none)"]:
                body = B(["(if (bin gt (var q) (int 1)) %s (elifs) none)" % B(["(print (var seen))"]), T(","), "(assign seen (var q))", T(";")])
                t = B(([outer] if outer else []) + [loop % body, T("|")] + (["(print (var seen))"] if outer else []))
                cases.append((t, "-"))
                if not outer:
                    cases.append((t, "((%s (int 7)))" % hx("seen")))
        # a @for without an init clause still has a scope of its own: what its body (or its post clause) assigns is
        # gone after the loop and does not change what the enclosing block sees
        for post in ["none", "(set n (bin add (var n) (int 1)))"]:
            body = ["(print (var n))", T(",")] + (["(assign n (bin add (var n) (int 1)))"] if post == "none" else []) + ["(assign m (int 7))"]
            for cond in ["(bin lt (var n) (int 2))"]:
                t = B(["(assign n (int 0))", "(assign m (int 1))", "(for none %s %s %s none)" % (cond, post, B(body)), T("|"), "(print (var n))", T("|"), "(print (var m))"])
                cases.append((t, "-"))
                t2 = B(["(for none %s %s %s none)" % (cond, post, B(body)), T("|"), "(print (var n))"])
                cases.append((t2, "((%s (int 0)))" % hx("n")))
                cases.append((B(["(if (bool 1) %s (elifs) none)" % B(["(assign n (int 0))", "(for none %s %s %s none)" % (cond, post, B(body)), T("|"), "(print (var n))"])]), "-"))
        for els in [("(int 1)", "(str %s 1)" % hx("a")), ("(int 1)", "(float 15 1)"), ("(str %s 1)" % hx("a"), "(int 2)"), ("(bool 1)", "(nil)"),
                    ("(int 1)", "(int 2)"), ("(arr)", "(arr (int 1))"), ("(arr (int 1))", "(obj (k (int 1)))")]:
            cases.append((B(["(each q (arr %s %s) %s none)" % (els[0], els[1], B(["(print (var q))", T(",")])), T("|")]), "-"))
        # the reserved name
        for t in [B(["(assign loop (int 1))"]), B(["(each loop (arr (int 1)) %s none)" % B([T("x")])]),
                  B(["(each v (arr (int 1)) %s none)" % B(["(assign loop (int 2))"])]), B([T("ok")])]:
            cases.append((t, "-"))
            cases.append((t, "((%s (int 1)))" % hx("loop")))
        for _ in range({"quick": 4000, "thorough": 60000, "search": 12000}[tier]):
            nodes = self.seq(rng, names, rng.choice([0, 1, 2])) + [self.skeleton(rng, 2, names)] + self.seq(rng, names, rng.choice([1, 2]))
            pre = [n for n in names if rng.random() < 0.35]
            d = "(" + " ".join("(%s %s)" % (hx(n), self.DATAV[rng.choice(types)]) for n in pre) + ")" if pre else "-"
            if rng.random() < 0.03:
                d = "((%s (int 1)))" % hx("loop")
            cases.append((B(nodes), d))
        base = cond_data()[1:-1]
        lines = []
        for i, (t, d) in enumerate(cases):
            dd = "(" + base + (" " + d[1:-1] if d != "-" else "") + ")"
            lines.append("C04:%d\txtpl\t%s\t%s" % (i, hx(t), hx(dd)))
        return lines, {"exhaustive": False, "distribution": {"cases": len(cases), "type_pairs": len(types) ** 2}}

    def nontrivial(self, r):
        c = r["case"]
        return "406966" in c or "4065616368" in c or "40666f72" in c


PROPS["C04"] = C04()


# ----------------------------------------------------------------------------- tree helpers

def fsx(files):
    return "(" + " ".join("(%s %s %s)" % (hx(p), k, hx(c)) for p, k, c in files) + ")"


def opx(ops):
    return "(" + " ".join(ops) + ")"


def op_new(d="tpl", e=".tw", page="", debug=0):
    return "(new %s %s %s %d)" % (hx(d), hx(e), hx(page), debug)


def op_configure(d="tpl", e=".tw", page="", debug=0):
    return "(configure %s %s %s %d)" % (hx(d), hx(e), hx(page), debug)


def op_string(name, data=None):
    return "(string %s%s)" % (hx(name), " " + data if data else "")


def op_response(name, data=None):
    return "(response %s%s)" % (hx(name), " " + data if data else "")


def op_evalstr(src, data=None):
    return "(evalstr %s%s)" % (hx(src), " " + data if data else "")


def op_evalfile(rel, data=None):
    return "(evalfile %s%s)" % (hx(rel), " " + data if data else "")


def tree_case(cid, files, ops, constraints):
    return "\t".join([cid, "tree", hx(fsx(files)), hx(opx(ops)), "Q:" + ";".join(constraints)])


TREE_DATA = "((%s (str %s)) (%s (int 3)) (%s (slice (int 1) (int 2))) (%s (bool 1)) (%s (map (%s (str %s)))) (%s (str %s)) (%s (str %s)) (%s (bool 0)))" % (
    hx("name"), hx("Ann"), hx("n"), hx("items"), hx("flag"), hx("user"), hx("Name"), hx("Bo"), hx("kind"), hx("OUTERKIND"),
    hx("label"), hx("OUTERLABEL"), hx("big"))


# ----------------------------------------------------------------------------- C06

class C06(Prop):
    timeout_ms = 5000
    rule = ("generated template trees: a layout with 1..3 reserves placed at top level, inside @if, inside @each (rendered "
            "once per pass) and inside nested blocks; a page that @use-s it (plain and '~' alias) and inserts every subset "
            "of the reserves in block or expression form with data-dependent content, with extra text between the inserts; "
            "directory / extension settings varied. The oracle is the property itself: String(page, data) must equal "
            "EvaluateString of the layout source in which every @reserve is textually replaced by the insert's content. "
            "Fault trees: an insert that names no reserve, two inserts with one name, a missing layout, a layout that uses "
            "a layout. Non-trivial: at least two reserves or a reserve inside a block.")
    explanation = ("Theorems: loader lemmas on the model (layouts are not registered; an insert without a reserve, a "
                   "missing layout and a layout-in-layout are errors). Correspondence: loader + evaluator model = "
                   "implementation on every history. Oracle: substitution equality and the four error cases.")
    assumptions = ["reserve names are distinct within a layout", "the harness writes each tree into a fresh directory and resets package state through the verif hook"]

    CONTENT_BLOCK = ["<b>{{ name }}</b>", "plain", "@if(flag)yes@else no@end", "@each(i in items)[{{ i }}]@end", "{{ n + 1 }}", "",
                     "{{ v9 = n }}{{ v9 * 2 }}", "a\nb"]
    CONTENT_EXPR = ["name", "n * 2", "'lit <i>'", "items.len()", "user.name", "flag ? 'T' : 'F'"]

    def layout(self, rng, names):
        parts = ["<html>"]
        for nm in names:
            r = "@reserve('%s')" % nm
            w = rng.random()
            if w < 0.4:
                parts.append("<%s>" % nm + r + "</%s>" % nm)
            elif w < 0.6:
                parts.append("@if(flag)(" + r + ")@else none@end")
            elif w < 0.8:
                parts.append("@each(k in items){{ k }}:" + r + ";@end")
            elif w < 0.88:
                parts.append("@if(n > 1)@each(k in [1])<" + r + ">@end@end")
            elif w < 0.92:
                parts.append("@if(big)x@elseif(flag)[" + r + "]@else y@end")
            elif w < 0.96:
                parts.append("@if(big)x@else<e>" + r + "</e>@end")
            else:
                parts.append("@for(i = 0; i < 2; i++)(" + r + ")@end")
            parts.append(rng.choice(["", " ", "\n", "{{ name }}"]))
        parts.append("</html>")
        return parts

    def generate(self, rng, tier):
        lines = []
        n = {"quick": 500, "thorough": 6000, "search": 1500}[tier]
        for i in range(n):
            names = rng.sample(["title", "body", "foot", "x1"], rng.choice([1, 2, 2, 3]))
            lparts = self.layout(rng, names)
            inserted = [nm for nm in names if rng.random() < 0.7]
            rng.shuffle(inserted)
            page, subst = ["@use('%s')" % rng.choice(["~main", "layouts/main"])], {}
            for nm in inserted:
                if rng.random() < 0.5:
                    c = rng.choice(self.CONTENT_BLOCK)
                    page.append("@insert('%s')%s@end" % (nm, c))
                    subst[nm] = c
                else:
                    c = rng.choice(self.CONTENT_EXPR)
                    page.append("@insert('%s', %s)" % (nm, c))
                    subst[nm] = "{{ " + c + " }}"
                page.append(rng.choice(["", " dropped text ", "\n", "<p>page text</p>"]))
            lsrc = "".join(lparts)
            inlined = lsrc
            for nm in names:
                inlined = inlined.replace("@reserve('%s')" % nm, subst.get(nm, ""))
            d, e = rng.choice([("tpl", ".tw"), ("tpl/", ".tw"), ("./tpl", ".tw.html"), ("views/sub", ".html"), ("tpl//", ".tw")])
            dd = d.strip("/").replace("./", "")
            files = [("%s/page%s" % (dd, e), "file", "".join(page)), ("%s/layouts/main%s" % (dd, e), "file", lsrc)]
            ops = [op_new(d, e), op_string("page", TREE_DATA), op_evalstr(inlined, TREE_DATA), op_string("layouts/main", TREE_DATA)]
            lines.append(tree_case("C06:%d" % i, files, ops, ["ok:0", "eq:1:2", "err:3", "nopanic"]))
        # a reserve evaluated once per pass of a loop: the insert must be rendered afresh in every pass
        loops = [("<ul>@each(k in items)<li>@reserve('row')</li>@end</ul>", ["{{ k }}", "{{ loop.iter }}.{{ k }}", "@if(loop.first)F@end{{ k }}",
                                                                              "{{ cnt = k * 2 }}{{ cnt }}", "k", "loop.index", "k * n"]),
                 ("@for(i = 0; i < 3; i++)[@reserve('row')]@end", ["{{ i }}", "{{ i * n }}", "i", "i + 1"]),
                 ("@each(a in items)@each(b in items)(@reserve('row'))@end@end", ["{{ a }}{{ b }}", "a * 10 + b", "{{ loop.index }}"]),
                 ("@if(big)x@elseif(flag)<@reserve('row')>@else y@end|@if(big)x@elseif(big)y@else<e>@reserve('two')</e>@end", ["{{ name }}", "n"])]
        for li, (lay, contents) in enumerate(loops):
            for ci, c in enumerate(contents):
                if c.startswith("{{") or c.startswith("@"):
                    page, sub = "@use('~main')@insert('row')%s@end" % c, c
                else:
                    page, sub = "@use('~main')@insert('row', %s)" % c, "{{ " + c + " }}"
                if "'two'" in lay:
                    page += "@insert('two')2:%s@end" % sub
                inlined = lay.replace("@reserve('row')", sub).replace("@reserve('two')", "2:" + sub)
                files = [("tpl/page.tw", "file", page), ("tpl/layouts/main.tw", "file", lay)]
                ops = [op_new("tpl", ".tw"), op_string("page", TREE_DATA), op_evalstr(inlined, TREE_DATA)]
                lines.append(tree_case("C06:l%d_%d" % (li, ci), files, ops, ["ok:0", "ok:1", "eq:1:2", "nopanic"]))
        # '~' is the alias of the layouts directory only as the FIRST character of a name: a layout whose own name holds a
        # tilde elsewhere (versioned names, backup copies) is found under exactly that name
        for li, lname in enumerate(["base~v2", "main~", "a~b~c", "sub/lay~old", "~tilde~inside"]):
            lay = "<t>@reserve('title')</t>{{ name }}"
            fname = "layouts/" + lname[1:] if lname.startswith("~") else lname
            files = [("tpl/page.tw", "file", "@use('%s')@insert('title')T@end" % lname), ("tpl/%s.tw" % fname, "file", lay)]
            ops = [op_new("tpl", ".tw"), op_string("page", TREE_DATA), op_evalstr(lay.replace("@reserve('title')", "T"), TREE_DATA)]
            lines.append(tree_case("C06:t%d" % li, files, ops, ["ok:0", "ok:1", "eq:1:2", "nopanic"]))
        # several pages of one directory share a layout: each page sees the layout filled with ITS inserts only,
        # whatever the other pages insert and in whatever order the files are loaded
        for i in range({"quick": 60, "thorough": 600, "search": 120}[tier]):
            lay = "<t>@reserve('title')</t><m>@reserve('content')</m>{{ name }}"
            pnames = rng.sample(["about", "blank", "zeta", "index", "a/b", "m"], rng.choice([2, 3, 4]))
            files = [("tpl/layouts/main.tw", "file", lay)]
            ops = [op_new("tpl", ".tw")]
            cons = ["ok:0", "nopanic"]
            for pn in pnames:
                subst = {}
                page = "@use('~main')"
                for nm in ("title", "content"):
                    k = rng.random()
                    if k < 0.4:
                        pass                                   # this page does not fill the reserve
                    elif k < 0.7:
                        c = "%s-%s {{ n }}" % (pn, nm)
                        page += "@insert('%s')%s@end" % (nm, c); subst[nm] = c
                    else:
                        c = "'%s:' + name" % pn
                        page += "@insert('%s', %s)" % (nm, c); subst[nm] = "{{ " + c + " }}"
                page += rng.choice(["", "<p>ignored text</p>"])
                files.append(("tpl/%s.tw" % pn, "file", page))
                inl = lay.replace("@reserve('title')", subst.get("title", "")).replace("@reserve('content')", subst.get("content", ""))
                ops += [op_string(pn, TREE_DATA), op_evalstr(inl, TREE_DATA)]
                cons.append("eq:%d:%d" % (len(ops) - 2, len(ops) - 1))
            lines.append(tree_case("C06:m%d" % i, files, ops, cons))
        # the four error cases
        for i in range({"quick": 60, "thorough": 300, "search": 80}[tier]):
            lay = "<t>@reserve('title')</t>@reserve('body')"
            k = i % 6
            if k >= 4:
                # inserts that are not a subset of the reserves, including a layout with no reserve at all
                rnames = rng.sample(["title", "body", "foot"], rng.choice([0, 0, 1, 2]))
                lay2 = "<l>" + "".join("@reserve('%s')" % r for r in rnames) + "static {{ name }}</l>"
                inames = rng.sample(["title", "body", "foot", "side"], rng.choice([1, 2]))
                page = "@use('~main')\nignored\n" + "".join("@insert('%s', 'v')" % n2 if rng.random() < 0.5 else "@insert('%s')b@end" % n2 for n2 in inames)
                files = [("tpl/page.tw", "file", page), ("tpl/layouts/main.tw", "file", lay2)]
                extra = [n2 for n2 in inames if n2 not in rnames]
                cons = (["err:0", "msgsub:0:" + hx(sorted(extra)[0]), "nopanic"] if extra else ["ok:0", "ok:1", "nopanic"])
                lines.append(tree_case("C06:e%d" % i, files, [op_new("tpl", ".tw"), op_string("page", TREE_DATA)], cons))
                continue
            if k == 0:
                page = "@use('~main')@insert('title', 'a')@insert('nosuch')x@end"
                files = [("tpl/page.tw", "file", page), ("tpl/layouts/main.tw", "file", lay)]
                cons = ["err:0", "msgsub:0:" + hx("nosuch"), "nopanic"]
            elif k == 1:
                page = "@use('~main')@insert('title', 'a')\n@insert('title')b@end"
                files = [("tpl/page.tw", "file", page), ("tpl/layouts/main.tw", "file", lay)]
                cons = ["err:0", "msgsub:0:" + hx("title"), "nopanic"]
            elif k == 2:
                page = "@use('~gone')@insert('title', 'a')"
                files = [("tpl/page.tw", "file", page), ("tpl/layouts/main.tw", "file", lay)]
                cons = ["err:0", "msgsub:0:" + hx("gone"), "nopanic"]
            else:
                page = "@use('~main')@insert('title', 'a')"
                files = [("tpl/page.tw", "file", page), ("tpl/layouts/main.tw", "file", "@use('~base')" + lay),
                         ("tpl/layouts/base.tw", "file", "B@reserve('title')")]
                cons = ["err:1", "nopanic"]
            lines.append(tree_case("C06:e%d" % i, files, [op_new("tpl", ".tw"), op_string("page", TREE_DATA)], cons))
        return lines, {"exhaustive": False, "distribution": {"layout_page_pairs": n}}

    def nontrivial(self, r):
        return r["case"].count("4072657365727665") >= 1   # "@reserve" appears in hex of fs (double-hexed: approximate)


PROPS["C06"] = C06()


# ----------------------------------------------------------------------------- C07

class C07(Prop):
    timeout_ms = 5000
    rule = ("generated trees: a component file with named and default slots and arguments used in text and in conditions; "
            "pages using it 1..3 times - the same component several times with different arguments and slot bodies, at top "
            "level, inside @if, inside @each (one use evaluated per pass) and inside a layout insert. Oracle = the property: "
            "String(page) must equal EvaluateString of the page in which every use is replaced by the component source in a "
            "child scope ('@if(true){{ k = v }}...@end') with each @slot replaced by that use's body (or nothing). Fault "
            "trees: undeclared slot, slot passed twice, missing component file (must fail at load and name the component). "
            "Non-trivial: two or more uses.")
    explanation = ("Theorems: loader lemmas on the model (each use receives its own slot bodies: apply_component is a "
                   "function of that use's slots only). Correspondence: loader + evaluator model = implementation. "
                   "Oracle: inlining equality and the three load-time error cases.")
    assumptions = ["slots are declared at the top level of the component file"]

    def comp_src(self, rng):
        return rng.choice([
            "<div class='{{ kind }}'>@slot|@slot('foot')</div>",
            "[@if(big)BIG@else small@end:{{ label }}:@slot('head')/@slot]",
            "({{ label }}{{ kind }}@slot)",
            "<c>@slot('head')<m>{{ label.upper() }}</m>@slot('foot')</c>",
        ])

    def use(self, rng, csrc, idx):
        args = {"kind": rng.choice(["'k%d'" % idx, "name", "'q'", "label", "label + kind"]),
                "label": rng.choice(["'L%d'" % idx, "name", "user.name", "kind", "kind + '!'"]),
                "big": rng.choice(["true", "false", "n > %d" % idx, "big", "!big"])}
        if rng.random() < 0.08:
            # the name is visible with another type (n is an integer, flag a boolean) or reserved: binding it must not be
            # skipped silently - the inlined page fails on the assignment, so must the component use
            k, v = rng.choice([("n", "'s%d'" % idx), ("flag", "%d" % idx), ("name", "%d" % (idx + 1)), ("loop", "1")])
            args[k] = v
        slots = {}
        if "@slot|" in csrc or "@slot]" in csrc or "@slot)" in csrc or csrc.count("@slot") > csrc.count("@slot('"):
            if rng.random() < 0.8:
                slots[""] = rng.choice(["D%d" % idx, "{{ name }}%d" % idx, "@if(flag)f%d@end" % idx, "{{ label }}!"])
        for nm in ("head", "foot"):
            if "@slot('%s')" % nm in csrc and rng.random() < 0.7:
                slots[nm] = rng.choice(["%s%d" % (nm, idx), "<i>{{ n + %d }}</i>" % idx, "{{ kind }}"])
        use = "@component('%s', {%s})" % (rng.choice(["~card", "components/card"]), ", ".join("%s: %s" % kv for kv in args.items()))
        order = list(slots.items())
        rng.shuffle(order)
        for nm, body in order:
            use += rng.choice(["", " ", "\n"]) + ("@slot" if nm == "" else "@slot('%s')" % nm) + body + "@end"
        if order:
            use += rng.choice(["", " ", "\n"]) + "@end"      # the component's own @end closes its slot list
        inl = csrc
        for nm in ("head", "foot"):
            inl = inl.replace("@slot('%s')" % nm, slots.get(nm, ""))
        inl = inl.replace("@slot", slots.get("", ""))
        # arguments are evaluated at the place of use: into temporaries first, then bound in the child scope
        tmp = "".join("{{ t%d_%s = %s }}" % (idx, k, v) for k, v in sorted(args.items()))
        inl = tmp + "@if(true)" + "".join("{{ %s = t%d_%s }}" % (k, idx, k) for k in sorted(args)) + inl + "@end"
        return use, inl

    def generate(self, rng, tier):
        lines = []
        n = {"quick": 500, "thorough": 6000, "search": 1500}[tier]
        for i in range(n):
            csrc = self.comp_src(rng)
            k = rng.choice([1, 2, 2, 3])
            page, inl = [], []
            for u in range(k):
                use, ui = self.use(rng, csrc, u)
                w = rng.random()
                pre = rng.choice(["<p>", "A", "x{{ n }}"])
                # text after the use stays where it is written: inside the block, once per pass
                tail = rng.choice(["", "", "T%d" % u, ";{{ n }}", " t "])
                if w < 0.5:
                    page += [pre, use, "|"]; inl += [pre, ui, "|"]
                elif w < 0.65:
                    page += [pre, "@if(flag)", use, tail, "@end|"]; inl += [pre, "@if(flag)", ui, tail, "@end|"]
                elif w < 0.75:
                    page += [pre, "@if(big)", use, tail, "@else", "E", "@end|"]; inl += [pre, "@if(big)", ui, tail, "@else", "E", "@end|"]
                else:
                    page += [pre, "@each(it in items){{ it }}", use, tail, "@end|"]; inl += [pre, "@each(it in items){{ it }}", ui, tail, "@end|"]
            files = [("tpl/page.tw", "file", "".join(page)), ("tpl/components/card.tw", "file", csrc)]
            ops = [op_new("tpl", ".tw"), op_string("page", TREE_DATA), op_evalstr("".join(inl), TREE_DATA)]
            # a use whose argument cannot be bound fails both renders with the same message (paths differ between the APIs)
            lines.append(tree_case("C07:%d" % i, files, ops, ["ok:0", "agree:1:2", "nopanic"]))
            if i % 10 == 0:   # the same uses inside a layout insert
                files2 = [("tpl/page.tw", "file", "@use('~m')@insert('b')" + "".join(page) + "@end"), ("tpl/components/card.tw", "file", csrc),
                          ("tpl/layouts/m.tw", "file", "<L>@reserve('b')</L>")]
                ops2 = [op_new("tpl", ".tw"), op_string("page", TREE_DATA), op_evalstr("<L>" + "".join(inl) + "</L>", TREE_DATA)]
                lines.append(tree_case("C07:l%d" % i, files2, ops2, ["ok:0", "agree:1:2", "nopanic"]))
        for i in range({"quick": 30, "thorough": 300, "search": 60}[tier]):
            k = i % 3
            csrc = "<c>@slot('head')|@slot</c>"
            if k == 0:
                page = "a@component('~card')@slot('nosuch')x@end@end b"
                cons = ["err:0", "msgsub:0:" + hx("card"), "nopanic"]
            elif k == 1:
                page = "a@component('~card')@slot('head')x@end@slot('head')y@end@end b"
                cons = ["err:0", "msgsub:0:" + hx("card"), "nopanic"]
            else:
                page = "a\n@component('~gone') b"
                cons = ["err:0", "msgsub:0:" + hx("gone"), "line:0:2", "nopanic"]
            files = [("tpl/page.tw", "file", page), ("tpl/components/card.tw", "file", csrc)]
            lines.append(tree_case("C07:e%d" % i, files, [op_new("tpl", ".tw")], cons))
        # a use written inside the slot body of another use (to any depth, inside @each / @if there) gets its own file,
        # arguments and slots like any other use; a use written in a component FILE is not resolved (stated by no
        # property: model = implementation there)
        comps = [("tpl/components/a.tw", "file", "[@slot]"), ("tpl/components/b.tw", "file", "<{{ x }}:@slot('s')>"),
                 ("tpl/components/c.tw", "file", "C{{ y }}"), ("tpl/components/d.tw", "file", "D@component('~c', {y: 9})")]
        NEST = [("@component('~a')@slot@component('~c', {y: 1})@end@end", "[C1]"),
                ("@component('~a')@slot<p>@component('~b', {x: 2})@slot('s')@component('~c', {y: 3})@end@end<q>@end@end", "[<p><2:C3><q>]"),
                ("@component('~a')@slot@each(i in [1, 2])@component('~c', {y: i})@end@end@end", "[C1C2]"),
                ("@component('~a')@slot@component('~c', {y: 1})@end@end|@component('~a')@slot@component('~c', {y: 2})@end@end", "[C1]|[C2]"),
                ("@component('~a')@slot@if(flag)@component('~b', {x: n})@slot('s')@component('~a')@slot@component('~c', {y: n})@end@end@end@end@end@end@end", "[<3:[C3]>]"),
                ("@each(i in [1, 2])@component('~b', {x: i})@slot('s')@component('~c', {y: i + 1})@end@end@end", "<1:C2><2:C3>"),
                ("@component('~d')", None)]
        for j, (page, out) in enumerate(NEST):
            cons = ["ok:0", "nopanic"] + (["out:1:" + hx(out)] if out is not None else [])
            lines.append(tree_case("C07:n%d" % j, [("tpl/page.tw", "file", page)] + comps, [op_new("tpl", ".tw"), op_string("page", TREE_DATA)], cons))
        # random pages with uses nested in slot bodies, inserts, loops and conditionals to depth 3 (model = implementation;
        # load errors for undeclared slots included)
        rcomps = [("tpl/components/a.tw", "file", "[@slot]"), ("tpl/components/b.tw", "file", "<{{ x }}:@slot('s')|@slot>"),
                  ("tpl/components/c.tw", "file", "C{{ y }}"), ("tpl/components/e.tw", "file", "@if(x > 1)big@slot('s')@else small@slot@end"),
                  ("tpl/layouts/m.tw", "file", "<L>@reserve('t')|@each(i in [1, 2])@reserve('b')@end</L>")]

        def body(d):
            parts = []
            for _ in range(rng.choice([1, 1, 2, 3])):
                k = rng.random()
                if d <= 0 or k < 0.3:
                    parts.append(rng.choice(["t", "{{ n }}", "{{ x }}", "<p>", "{{ i }}"]))
                elif k < 0.45:
                    parts.append("@if(flag)" + body(d - 1) + "@else" + body(d - 1) + "@end")
                elif k < 0.55:
                    parts.append("@each(i in [1, 2])" + body(d - 1) + "@end")
                else:
                    parts.append(nuse(d - 1))
            return "".join(parts)

        def nuse(d):
            c = rng.choice(["a", "b", "c", "e"])
            if c == "a":
                return "@component('~a')" + (("@slot" + body(d) + "@end@end") if rng.random() < 0.8 else "")
            if c == "c":
                return "@component('~c', {y: %s})" % rng.choice(["1", "n", "x", "i"])
            sl = []
            if rng.random() < 0.7:
                sl.append("@slot('s')" + body(d) + "@end")
            if rng.random() < 0.7:
                sl.append("@slot" + body(d) + "@end")
            rng.shuffle(sl)
            return "@component('~%s', {x: %s})" % (c, rng.choice(["2", "n", "1", "i"])) + ("".join(sl) + "@end" if sl else "")

        for j in range({"quick": 150, "thorough": 2000, "search": 400}[tier]):
            pg = body(3)
            if rng.random() < 0.3:
                pg = "@use('~m')@insert('t', n)@insert('b')" + pg + "@end"
            else:
                pg = "{{ x = 5 }}{{ i = 0 }}" + pg
            lines.append(tree_case("C07:r%d" % j, [("tpl/pg.tw", "file", pg)] + rcomps, [op_new("tpl", ".tw"), op_string("pg", TREE_DATA)], ["nopanic"]))
        return lines, {"exhaustive": False, "distribution": {"pages": n}}


PROPS["C07"] = C07()


# ----------------------------------------------------------------------------- C13

class C13(Prop):
    timeout_ms = 5000
    rule = ("generated valid templates of 1..30 lines made of every multi-line token kind (text runs with LF and CRLF, "
            "string literals containing line breaks, multi-line comments, {{ }} blocks spread over lines, directives) with "
            "ONE fault injected at a statement position; the faulty construct sits on one line whose number is known by "
            "construction. Fault kinds: undefined identifier, mistyped operand, unknown function, unknown property (dot and "
            "bracket), division and modulo by zero, illegal character, unexpected token, undefined insert and unknown "
            "component (in trees), plus faults inside a page that uses a layout. Oracle: reported line = constructed line; "
            "for load-time and page faults the reported path = absolute path of the file containing the construct. "
            "Non-trivial: at least one multi-line token precedes the fault.")
    explanation = ("Theorems: the lexer's line counter is the number of LF before the offset (C19's invariant), so the line "
                   "of every error is a pure function of the source. Correspondence: model = implementation including "
                   "line, path and message of every error. Oracle: constructed line and path.")
    assumptions = ["for constructs spread over several lines the designated token is: the identifier (undefined identifier), the first "
                   "token of the left operand (mistyped operand, division by zero), the function name (unknown function), the dot or "
                   "the index expression (unknown property)"]

    FILLERS = ["text\n", "<p>\n  para\n</p>\n", "a\r\nb\r\n", "{{ 'x' }}\n", "{{ \"multi\nline\nstring\" }}\n", "{{-- one --}}\n",
               "{{-- a\n   b\n   c --}}\n", "{{\n  1 +\n  2\n}}\n", "@if(true)\n yes\n@end\n", "@each(i in [1, 2])\n  {{ i }}\n@end\n",
               "{{ ok = 1 }}\n", "\n\n", "no newline ", "{{ [1,\n 2,\n 3].len() }}\n", "@if(false)\n@elseif(true)\n e\n@else\n z\n@end\n",
               "\\{{ esc }}\n", "{{ {a: 1,\n b: 2}.a }}\n"]
    FAULTS = [("{{ zz9 }}", "eval"), ("{{ 1 + 'str' }}", "eval"), ("{{ 1.nofunc() }}", "eval"), ("{{ ob.nope }}", "eval"),
              ("{{ ob['nope'] }}", "eval"), ("{{ 1 / 0 }}", "eval"), ("{{ 7 % 0 }}", "eval"), ("{{ # }}", "parse"),
              ("{{ 1 + ) }}", "parse"), ("{{ ] }}", "parse"), ("@if(zz9)x@end", "eval"), ("@each(q in 5)x@end", "eval"),
              ("{{ ok9 = 1 }}{{ ok9 = 's' }}", "eval"), ("{{ -'s' }}", "eval"), ("{{ 'a' < 'b' }}", "eval"),
              ("@breakIf(zz9)", "eval"), ("{{ [1][zz9] }}", "eval"), ("{{ true ? zz9 : 1 }}", "eval")]
    # faulty constructs spread over several lines: (source, kind, line offset of the designated token)
    MULTI = [("{{ ob.nope9(\n  1,\n  2\n) }}", "eval", 0), ("{{ 1 +\n 'str' }}", "eval", 0), ("{{\n zz9 }}", "eval", 1), ("{{ zz9\n }}", "eval", 0),
             ("{{ ob\n.nope }}", "eval", 1), ("{{ ob[\n'nope'\n] }}", "eval", 1), ("{{ 1 /\n 0 }}", "eval", 0), ("{{ 'a'.nofunc(\n) }}", "eval", 0),
             ("@if(\nzz9\n)x@end", "eval", 1), ("{{ [1,\n 2].nope9(\n3) }}", "eval", 1), ("{{ 'a\nb'.nope9() }}", "eval", 1), ("{{ '\nb'.nope9() }}", "eval", 1), ("{{ \"\n\".nope9() }}", "eval", 1), ("{{ '\n' + zz9 }}", "eval", 1),
             ("{{ 1 +\n ) }}", "parse", 1), ("{{ 'x'.len(\n1,\n 2).nope9(\n) }}", "eval", 2), ("{{ true ?\n zz9 :\n 1 }}", "eval", 1),
             # an unexpected token on a later line than the token before it: the line is the unexpected token's
             ("{{ {a: 1\n b: 2} }}", "parse", 1), ("{{ [1, 2\n\n }}", "parse", 2), ("{{ 'a'.len(1\n }}", "parse", 1),
             ("{{ true ? 1\n }}", "parse", 1), ("{{ (1 + 2\n\n\n }}", "parse", 3), ("@if(true\n x@end", "parse", 1),
             ("@each(q in [1]\n\n x@end", "parse", 2), ("{{ ob[1\n }}", "parse", 1), ("@component('c', {a: 1\n b: 2})", "parse", 1),
             # an illegal character that is the FIRST byte of its line (LF and CRLF line ends), and one after indentation
             ("{{ 1 +\n# }}", "parse", 1), ("{{\n# }}", "parse", 1), ("@if(\n~)x@end", "parse", 1), ("{{ ob\n\n$ }}", "parse", 2),
             ("{{ [1,\r\n^] }}", "parse", 1), ("{{ 1 +\n  # }}", "parse", 1), ("{{ 1 *\n\n\n| 2 }}", "parse", 3), ("@each(v in\n`x`)y@end", "parse", 1)]
    DATA = "((%s (map (%s (int 1)))))" % (hx("ob"), hx("k"))

    # random multi-line tokens whose line breaks sit at the edges of the token: directly after the opening quote / comment
    # opener / '{{', directly before the closer, doubled, as CRLF, next to an escaped quote
    def edge_filler(self, rng):
        nl = lambda: rng.choice(["\n", "\n", "\r\n", "\n\n"])
        mid = lambda: rng.choice(["", "a", " ", "ab c", "x" + nl() + "y"])
        body = rng.choice([lambda: nl() + mid(), lambda: mid() + nl(), lambda: nl() + mid() + nl(), lambda: nl(), lambda: mid() + nl() + mid()])()
        k = rng.randrange(6)
        if k == 0:
            q = rng.choice(["'", '"'])
            return "{{ " + q + body + q + " }}" + rng.choice(["\n", ""])
        if k == 1:
            q = rng.choice(["'", '"'])
            return "{{ " + q + body + "\\" + q + mid() + q + " }}\n"
        if k == 2:
            return "{{--" + body + "--}}" + rng.choice(["\n", ""])
        if k == 3:
            return "{{" + nl() + rng.choice(["1", "'s'", "[1," + nl() + "2]"]) + nl() + "}}" + rng.choice(["\n", ""])
        if k == 4:
            q = rng.choice(["'", '"'])
            return "{{ v9 = " + q + body + q + "; [" + q + body + q + "," + nl() + q + q + "].len() }}\n"
        return nl() + mid() + nl()

    def build(self, rng):
        fill = lambda: self.edge_filler(rng) if rng.random() < 0.4 else rng.choice(self.FILLERS)
        pre = [fill() for _ in range(rng.choice([0, 1, 2, 3, 5, 8]))]
        post = [fill() for _ in range(rng.choice([0, 1, 2]))]
        off = 0
        if rng.random() < 0.3:
            fault, kind, off = rng.choice(self.MULTI)
        else:
            fault, kind = rng.choice(self.FAULTS)
        before = "".join(pre)
        line = before.count("\n") + 1 + off
        return before + fault + rng.choice(["", "\n", " tail\n"]) + "".join(post), line, kind

    def generate(self, rng, tier):
        lines = []
        n = {"quick": 3000, "thorough": 40000, "search": 8000}[tier]
        for i in range(n):
            src, line, kind = self.build(rng)
            w = rng.random()
            if w < 0.55:
                lines.append(tree_case("C13:s%d" % i, [], [op_evalstr(src, self.DATA)], ["line:0:%d" % line, "nopanic"]))
            elif w < 0.8:
                files = [("tpl/pg.tw", "file", src)]
                if kind == "parse":
                    lines.append(tree_case("C13:f%d" % i, files, [op_new("tpl", ".tw")],
                                           ["line:0:%d" % line, "path:0:" + hx("$ROOT/tpl/pg.tw"), "nopanic"]))
                else:
                    lines.append(tree_case("C13:f%d" % i, files, [op_new("tpl", ".tw"), op_string("pg", self.DATA)],
                                           ["ok:0", "line:1:%d" % line, "path:1:" + hx("$ROOT/tpl/pg.tw"), "nopanic"]))
            elif w < 0.9:
                # undefined insert / unknown component at a known line of the page
                pre = "".join(rng.choice(["text\n", "{{-- c\n c --}}\n", "<p>\n</p>\n", ""]) for _ in range(rng.choice([0, 1, 3])))
                ln = pre.count("\n") + 1
                if rng.random() < 0.5:
                    page = "@use('~m')\n" + pre.replace("text", "") + "@insert('nosuch')x@end\n"
                    ln = page[: page.index("@insert")].count("\n") + 1
                    files = [("tpl/pg.tw", "file", page), ("tpl/layouts/m.tw", "file", "L@reserve('a')")]
                else:
                    page = pre + "@component('~gone')\n"
                    files = [("tpl/pg.tw", "file", page)]
                lines.append(tree_case("C13:t%d" % i, files, [op_new("tpl", ".tw")],
                                       ["line:0:%d" % ln, "path:0:" + hx("$ROOT/tpl/pg.tw"), "nopanic"]))
            else:
                # a parse fault inside a layout / component file: reported with that file's path
                if rng.random() < 0.5:
                    files = [("tpl/pg.tw", "file", "@use('~m')@insert('a', 1)"), ("tpl/layouts/m.tw", "file", src if kind == "parse" else "ok\n{{ # }}")]
                    ln = line if kind == "parse" else 2
                    path = "$ROOT/tpl/layouts/m.tw"
                else:
                    files = [("tpl/pg.tw", "file", "@component('~c')"), ("tpl/components/c.tw", "file", src if kind == "parse" else "ok\n\n{{ ) }}")]
                    ln = line if kind == "parse" else 3
                    path = "$ROOT/tpl/components/c.tw"
                lines.append(tree_case("C13:l%d" % i, files, [op_new("tpl", ".tw")], ["line:0:%d" % ln, "path:0:" + hx(path), "nopanic"]))
        # an unknown component / a parse fault referenced from a COMPONENT file that a page uses: the file named is the
        # component file (with the line in it), whatever the page is called and wherever it sorts
        for i, pg in enumerate(["about", "index", "zz/last", "aa/first", "components/zcard", "m"] * {"quick": 2, "thorough": 20, "search": 4}[tier]):
            pre = "".join(rng.choice(["text\n", "<div>\n", "{{-- c\n c --}}\n", ""]) for _ in range(rng.choice([0, 1, 2, 4])))
            ln = pre.count("\n") + 1
            ppre = "".join(rng.choice(["<h1>Page</h1>\n", "\n", "\n\n\n"]) for _ in range(rng.choice([0, 2, 5])))
            comp = pre + "@component('components/badge')\n</div>\n"
            files = [("tpl/%s.tw" % pg, "file", ppre + "@component('components/card')\n"), ("tpl/components/card.tw", "file", comp)]
            lines.append(tree_case("C13:n%d" % i, files, [op_new("tpl", ".tw")],
                                   ["line:0:%d" % ln, "path:0:" + hx("$ROOT/tpl/components/card.tw"), "msgsub:0:" + hx("badge"), "nopanic"]))
        # a render fault written in the PAGE but evaluated while a component or a layout is being rendered - inside a slot
        # body (named or default), inside an insert body, in an insert argument, in a component argument, after the
        # use: the error names the page's file and the line in the page
        RF = ["{{ nope }}", "{{ 1 / 0 }}", "{{ 1 + 'a' }}", "{{ n.nofn() }}", "@each(q in 5)x@end"]
        k = 0
        for rf in RF:
            for pad in (0, 1, 3):
                padding = "<h1>t</h1>\n" * pad
                shapes = [
                    (padding + "@component('~card')\n@slot('body')\n" + rf + "\n@end\n@end\n", pad + 3),
                    (padding + "@component('~card')\n@slot\nok\n" + rf + "\n@end\n@end\n", pad + 4),
                    (padding + "@component('~card')@slot('body')ok@end@end\n\n" + rf + "\n", pad + 3),
                    (padding + "@each(i in [1, 2])\n@component('~card')\n@slot('body')\n@if(i == 2)\n" + rf + "\n@end\n@end\n@end\n@end\n", pad + 5),
                    ("@use('~lay')\n" + padding + "@insert('main')\nok\n" + rf + "\n@end\n", pad + 4),
                ]
                if rf.startswith("{{"):
                    ex = rf[2:-2].strip()
                    shapes.append((padding + "@component('~card', {\n  a: 1,\n  b: " + ex + "\n})@slot('body')x@end@end\n", None))
                    shapes.append(("@use('~lay')\n" + padding + "\n@insert('main', " + ex + ")\n", pad + 3))
                for page, ln in shapes:
                    files = [("tpl/page.tw", "file", page), ("tpl/components/card.tw", "file", "<div>@slot('body')</div>\n<p>@slot</p>\n"),
                             ("tpl/layouts/lay.tw", "file", "<html>\n<body>\n\n@reserve('main')\n</body>\n")]
                    cons = ["ok:0", "err:1", "path:1:" + hx("$ROOT/tpl/page.tw"), "nopanic"] + (["line:1:%d" % ln] if ln else [])
                    lines.append(tree_case("C13:c%d" % k, files, [op_new("tpl", ".tw"), op_string("page", self.DATA)], cons))
                    k += 1
        return lines, {"exhaustive": False, "distribution": {"cases": n, "fault_kinds": len(self.FAULTS) + 4}}


PROPS["C13"] = C13()


# ----------------------------------------------------------------------------- C14

class C14(Prop):
    timeout_ms = 8000
    rule = ("programs and trees biased to objects with 2..8 keys (printed, dumped, used as component arguments), object "
            "literals and component arguments with several failing entries, pages with two undefined inserts, component "
            "uses with two duplicated slots, trees with two faulty files, data maps with two faulty entries; every "
            "operation is repeated 12 (quick) / 60 (thorough) times inside one history, after a reload in the same "
            "process, and the whole history is run in 3 / 10 fresh worker processes. Oracle: all repetitions agree "
            "byte for byte (output, or message + line + path). shuffle() and rand() are excluded.")
    explanation = ("Theorems: printing an object, evaluating an object literal and binding data go through a sort of the "
                   "keys, so the model's result is independent of the order in which the association list is presented "
                   "(asort is invariant under permutations of a list with distinct keys). Correspondence: model = "
                   "implementation. Oracle: repetitions and fresh processes agree.")
    assumptions = ["Go randomises map iteration per loop; the number of repetitions bounds the chance of missing an order-dependent site"]

    KEYS = ["a", "b", "c", "d", "e", "zeta", "Alpha", "k1", "id", "ID", "Id", "iD", "name", "Name", "NAME", "A", "B", "ab", "aB"]

    def obj_lit(self, rng, nk, failing=0):
        ks = rng.sample(self.KEYS, nk)
        vals = [rng.choice(["1", "'s'", "true", "[1, 2]", "{x: 1, y: 2}", "nil", "1.5"]) for _ in ks]
        for j in rng.sample(range(nk), min(failing, nk)):
            vals[j] = rng.choice(["zz%d" % j, "1 + 's%d'" % j, "1 / 0", "nofn%d()" % j if False else "yy%d" % j])
        return "{" + ", ".join("%s: %s" % kv for kv in zip(ks, vals)) + "}"

    def generate(self, rng, tier):
        reps = {"quick": 12, "thorough": 60, "search": 20}[tier]
        procs = {"quick": 3, "thorough": 10, "search": 3}[tier]
        lines = []
        n = {"quick": 60, "thorough": 400, "search": 120}[tier]
        for i in range(n):
            k = i % 8
            nk = rng.choice([2, 3, 5, 8])
            if k == 7:
                # component arguments that all EVALUATE but several of which cannot be BOUND (the name is visible with
                # another type, or is the reserved name): the error names the first one in key order, every time
                ks = rng.sample(self.KEYS, rng.choice([2, 3, 4]))
                pre = "".join("{{ %s = 1 }}" % key for key in ks)
                args = ["%s: 's%d'" % (key, j) for j, key in enumerate(ks)]
                if rng.random() < 0.5:
                    args.append("loop: 1")
                rng.shuffle(args)
                files = [("tpl/pg.tw", "file", pre + "@component('~c', {%s})" % ", ".join(args)), ("tpl/components/c.tw", "file", "C")]
                ops = [op_new("tpl", ".tw")] + [op_string("pg")] * reps
            elif k == 0:
                src = "{{ %s }}|@dump(%s)" % (self.obj_lit(rng, nk), self.obj_lit(rng, nk))
                files, ops = [], [op_evalstr(src)] * reps
            elif k == 1:
                src = "{{ %s }}" % self.obj_lit(rng, nk, failing=2)
                files, ops = [], [op_evalstr(src)] * reps
            elif k == 2:
                d = "(" + " ".join("(%s %s)" % (hx(key), rng.choice(["(int 1)", "(chan)", "(func)", "(str 61)"])) for key in
                                   rng.sample(self.KEYS + ["loop"], nk)) + ")"
                files, ops = [], [op_evalstr("{{ a }}x", d)] * reps
            elif k == 3:
                page = "@use('~m')@insert('u1')x@end@insert('u2', 2)@insert('u3')y@end@insert('a', 1)"
                files = [("tpl/pg.tw", "file", page), ("tpl/layouts/m.tw", "file", "L@reserve('a')")]
                ops = [op_new("tpl", ".tw")] * reps
            elif k == 4:
                page = "@component('~c')@slot('p')1@end@slot('q')2@end@slot('p')3@end@slot('q')4@end@end"
                files = [("tpl/pg.tw", "file", page), ("tpl/components/c.tw", "file", "@slot('p')@slot('q')")]
                ops = [op_new("tpl", ".tw")] * reps
            elif k == 5:
                files = [("tpl/%s.tw" % nm, "file", "{{ ) }}" if j < 2 else "fine") for j, nm in enumerate(rng.sample(self.KEYS, 4))]
                ops = [op_new("tpl", ".tw")] * reps
            elif k == 6 and (i // 8) % 2 == 1:
                a = "<ul>@each(n in [7, 8, 9])<li>{{ n }}</li>@end</ul>@for(i = 0; i < 2; i++)[{{ i }}]@end|{{ %s }}" % self.obj_lit(rng, nk)
                b = rng.choice(["@each(n in [1, 2, \"x\"])<b>{{ n }}</b>@end", "@for(i = 0; i < 3; i++)x{{ 1 / (1 - i) }}@end",
                                "@each(n in [1, 2])[{{ n }}@each(m in [1, 2])({{ m }}{{ zz }})@end]@end"])
                files, ops = [], [op_evalstr(a), op_evalstr(b)] * (reps // 2)
                cons = ["eq:%d:%d" % (j, j + 2) for j in range(len(ops) - 2)] + ["nopanic"]
                for p in range(procs):
                    lines.append(tree_case("C14:%d_p%d" % (i, p), files, ops, cons))
                continue
            else:
                obj = self.obj_lit(rng, nk)
                files = [("tpl/pg.tw", "file", "@component('~c', %s)" % self.obj_lit(rng, nk, failing=2) + "|{{ %s }}" % obj),
                         ("tpl/components/c.tw", "file", "C")]
                ops = [op_new("tpl", ".tw")] + [op_string("pg")] * reps
            cons = ["eq:%d:%d" % (j, j + 1) for j in range(len(ops) - 1) if not (k in (6, 7) and j == 0)] + ["nopanic"]
            for p in range(procs):
                lines.append(tree_case("C14:%d_p%d" % (i, p), files, ops, cons))
        # several faulty component uses in one page (missing files, undeclared slots, in any mix): the load error is the
        # one of the first use in the page, every time
        pages = ["@component('~zz')\n@component('~aa')\n@component('~mm')",
                 "@component('~b')@slot('q')x@end@end\n@component('~a')@slot('q')y@end@end",
                 "x\n@component('~gone')\n@component('~b')@slot('q')x@end@end\n@component('~gone2')",
                 "@if(true)@component('~k1')@end\n@each(i in [1])@component('~k0')@end\n@component('~k2')"]
        for j, page in enumerate(pages):
            files = [("tpl/pg.tw", "file", page), ("tpl/components/b.tw", "file", "B"), ("tpl/components/a.tw", "file", "A")]
            ops = [op_new("tpl", ".tw")] * reps
            cons = ["eq:%d:%d" % (q, q + 1) for q in range(len(ops) - 1)] + ["err:0", "nopanic"]
            for p in range(procs):
                lines.append(tree_case("C14:cf%d_p%d" % (j, p), files, ops, cons))
        return lines, {"exhaustive": False, "distribution": {"histories": n, "repetitions": reps, "fresh_processes": procs}}

    def post_check(self, results):
        groups = {}
        for r in results:
            key = r["case"].split("\t", 1)[1]
            groups.setdefault(key, []).append(r)
        bad = []
        for key, rs in groups.items():
            if len({r["impl"] for r in rs}) > 1:
                bad.append((rs[0], "the same history gave different results in different worker processes"))
        return bad


PROPS["C14"] = C14()


# ----------------------------------------------------------------------------- C16

class C16(Prop):
    timeout_ms = 8000
    rule = ("a fixed template tree (layout page, component page, failing page, page with a loop) and the operation set "
            "{String ok, String failing, String missing, Response ok, Response failing, EvaluateString ok, EvaluateString "
            "failing, EvaluateFile}: every history of length <= 3 (quick) / 4 (thorough) exhaustively and random histories "
            "to length 12; each operation's observation is compared with the same operation issued first after a fresh "
            "load. Non-trivial: histories of length >= 2; distinct = distinct histories.")
    explanation = ("Theorems: frame property on the API state machine - every render operation leaves the state "
                   "(configuration, registry, loaded programs) unchanged, hence by induction over histories the "
                   "observation of an operation does not depend on the render operations before it. Correspondence: "
                   "state-machine model = implementation on every history. Oracle: history vs fresh-state baseline.")
    assumptions = ["caller data immutability is observed by the harness (deep snapshot before/after), not proved"]

    FILES = [("tpl/home.tw", "file", "@use('~main')@insert('t', name)@insert('b')<b>{{ n + 1 }}</b>@end"),
             ("tpl/layouts/main.tw", "file", "<t>@reserve('t')</t>@reserve('b')"),
             ("tpl/cards.tw", "file", "@each(i in items)@component('~card', {v: i})@slot s{{ i }}@end@end;@end"),
             ("tpl/components/card.tw", "file", "[{{ v }}@slot]"),
             ("tpl/bad.tw", "file", "partial {{ n }}\n{{ zz }}"),
             ("tpl/bad2.tw", "file", "{{ n.nofunc() }}"),
             ("tpl/errpg.tw", "file", "<h1>custom error page</h1>"),
             # a render without data that assigns at top level must leave nothing behind for the next one
             ("tpl/setter.tw", "file", "{{ title = \"Hello\" }}<h1>{{ title }}</h1>"),
             ("tpl/reader.tw", "file", "<p>{{ title }}</p>"),
             ("tpl/shuf.tw", "file", "{{ items.shuffle().len() }}{{ [1, 2, 3, 4, 5, 6].shuffle().len() }}"),
             # fails inside a loop after earlier passes have produced output
             # two different faults at the same file and line (what the error page shows depends on the message, not only on the place)
             ("tpl/prof.tw", "file", "<h1>Profile</h1>\n<p>{{ who.name }}</p>\n"),
             ("tpl/badloop.tw", "file", "<ol>@each(i in items)<li>{{ i }}</li>{{ 1 / (2 - i) }}@end</ol>@for(j = 0; j < 3; j++)[{{ j }}{{ 1 % (1 - j) }}]@end")]

    def opset(self, shuffle=False):
        extra = [op_string("shuf", TREE_DATA), op_evalstr("{{ [1, 2, 3, 4].shuffle().len() }}")] if shuffle else []
        return extra + [op_string("home", TREE_DATA), op_string("bad", TREE_DATA), op_string("missing", TREE_DATA), op_string("cards", TREE_DATA),
                op_response("home", TREE_DATA), op_response("bad", TREE_DATA), op_response("bad2", TREE_DATA),
                op_evalstr("{{ n * 2 }}", TREE_DATA), op_evalstr("{{ zz }}"), op_evalfile("tpl/bad.tw", TREE_DATA),
                op_evalfile("tpl/components/card.tw", "((%s (int 1)))" % hx("v")),
                op_string("setter"), op_string("reader"), op_response("reader"),
                op_evalstr("{{ cnt = \"three\" }}{{ cnt }}"), op_evalstr("{{ cnt = 3 }}{{ cnt }}{{ title = 1 }}"),
                op_string("badloop", TREE_DATA), op_evalstr("@each(n in [1, 2, \"x\"])<b>{{ n }}</b>@end"),
                op_response("prof", "((%s (int 7)))" % hx("who")), op_response("prof", "((%s (map (%s (int 7)))))" % (hx("who"), hx("id")))]

    def generate(self, rng, tier):
        ops = self.opset()
        maxlen = {"quick": 3, "thorough": 4, "search": 2}[tier]
        hists = []
        for n in range(1, maxlen + 1):
            if n <= 2 or tier == "thorough" or n == 3:
                for t in itertools.product(range(len(ops)), repeat=n):
                    hists.append(list(t))
        if tier == "quick":
            three = [h for h in hists if len(h) == 3]
            rng.shuffle(three)
            hists = [h for h in hists if len(h) < 3] + three[:600]
        for _ in range({"quick": 200, "thorough": 3000, "search": 400}[tier]):
            hists.append([rng.randrange(len(ops)) for _ in range(rng.choice([5, 8, 12]))])
        lines = []
        for i, h in enumerate(hists):
            # with and without a custom error page configured (debug off / on)
            cfgs = [op_new("tpl", ".tw"), op_new("tpl", ".tw", "errpg", 0), op_new("tpl", ".tw", "errpg", 1)]
            new = cfgs[i % 3] if len(h) > 1 else None
            for nw in ([new] if new else cfgs):
                lines.append(tree_case("C16:%d_%d" % (i, cfgs.index(nw)), self.FILES, [nw] + [ops[j] for j in h], ["ok:0", "nopanic"]))
        return lines, {"exhaustive": False, "distribution": {"histories": len(hists), "operations": len(ops)},
                       "exhaustive_part": "all histories of length <= %d over %d operations" % (2 if tier != "thorough" else 4, len(ops))}

    def post_check(self, results):
        import binascii
        base = {}
        parsed = []
        for r in results:
            f = r["case"].split("\t")
            opsx = binascii.unhexlify(f[3]).decode()
            # split the top-level list into operations
            items, depth, cur = [], 0, ""
            for ch in opsx[1:-1]:
                if ch == "(":
                    depth += 1
                if depth > 0:
                    cur += ch
                if ch == ")":
                    depth -= 1
                    if depth == 0:
                        items.append(cur)
                        cur = ""
            obs = r["impl"].split("\t")[1].split("|") if r["impl"].startswith("TREE\t") else None
            parsed.append((r, items, obs))
            if obs and len(items) == 2 and len(obs) == 2:
                base[(items[0], items[1])] = obs[1]
        bad = []
        for r, items, obs in parsed:
            if obs is None:
                bad.append((r, "history did not complete: " + r["impl"][:60]))
                continue
            for k in range(1, len(items)):
                b = base.get((items[0], items[k]))
                if b is not None and k < len(obs) and obs[k] != b:
                    bad.append((r, "operation %d of the history differs from the same operation issued first after a fresh load" % k))
                    break
        return bad

    def nontrivial(self, r):
        return r["impl"].count("|") >= 2


PROPS["C16"] = C16()


# ----------------------------------------------------------------------------- C17

class C17(Prop):
    timeout_ms = 6000
    rule = ("all combinations of {debug on, off} x {no custom error page, valid custom page, missing custom page, failing "
            "custom page} x templates that succeed / fail at run time at every statement position of a 5-statement page "
            "(after producing output) / do not exist. Oracle from the property text: success => body = String output and nil "
            "error; failure => non-nil error, the body holds no part of the failed page, it is the custom page when one "
            "works and debug is off, else the built-in page, else empty; debug off => body holds neither message nor path; "
            "debug on => body holds message, path and line. Exhaustive over the combination table; the position and kind "
            "of the failure are varied randomly.")
    explanation = ("Theorems: with debug off the built-in error page renders to the same bytes whatever the error's "
                   "message, path and line (the body is a constant function of the error: non-interference), with debug on "
                   "it contains all three; Response writes the page only when String succeeded. Correspondence: Response "
                   "model = implementation. Oracle: the selection table above.")
    assumptions = ["http.ResponseWriter is an in-memory recorder; only the body and the returned error are observed"]

    MARK = "PARTIAL-OUTPUT-7731"

    # the last three have messages that hold <, > and &: the debug page shows the message as it is
    FAULTS = ["{{ secretvar }}", "{{ 1 + 'secretmsg' }}", "{{ n.secretfn() }}", "{{ user.secretprop }}", "{{ n / secretzero }}",
              "{{ name < 3 }}", "{{ name >= 3 }}", "{{ user['a<b>&c'] }}"]
    FAULT_EXPRS = ["secretvar", "1 + 'secretmsg'", "n.secretfn()", "user.secretprop", "n / secretzero", "name < 3", "name >= 3",
                   "user['a<b>&c']"]

    def page(self, rng, fail_at, shape="plain"):
        """returns the files of a tree whose page 'pg' fails (fail_at is not None) at a statement position or inside the
        construct named by shape: the page itself, a layout insert (argument or block form), a component argument, a
        component body, a slot body, or nested blocks"""
        stmts = ["<h1>{{ name }}</h1>", "@if(flag)%s@end" % self.MARK, "@each(i in items){{ i }}% @end", "<p>%s {{ n }}</p>" % self.MARK,
                 "<div style='width: 100%'>50%d done %s %v %!</div>", "end"]
        files = []
        fault = rng.choice(self.FAULTS) if fail_at is not None else "fine"
        fexpr = rng.choice(self.FAULT_EXPRS) if fail_at is not None else "name"
        if shape == "plain":
            if fail_at is not None:
                stmts.insert(fail_at, fault)
            body = self.MARK + "\n" + "\n".join(stmts)
        elif shape == "nested":
            if fail_at is not None:
                stmts.insert(fail_at, "@if(flag)@each(i in items)%s@if(i == 2)%s@end@end@end" % (self.MARK, fault))
            body = self.MARK + "\n" + "\n".join(stmts)
        elif shape in ("layout-arg", "layout-block"):
            files.append(("tpl/layouts/lay.tw", "file", "<html>%s<title>@reserve('title')</title>%s<body>@reserve('body')</body>%s</html>" % (self.MARK, self.MARK, self.MARK)))
            ins = "@insert('title', %s)" % fexpr if shape == "layout-arg" else "@insert('title')t %s %s@end" % (self.MARK, fault)
            body = "@use('~lay')" + ins + "@insert('body')" + "\n".join(stmts) + "@end"
        elif shape == "component-arg":
            files.append(("tpl/components/card.tw", "file", "<div>%s{{ title }}@slot</div>" % self.MARK))
            stmts.insert(fail_at if fail_at is not None else 0, "@component('~card', {title: %s})@slot x@end@end" % fexpr)
            body = self.MARK + "\n" + "\n".join(stmts)
        elif shape == "component-body":
            files.append(("tpl/components/card.tw", "file", "<div>%s{{ title }}%s@slot</div>" % (self.MARK, fault)))
            stmts.insert(fail_at if fail_at is not None else 0, "@component('~card', {title: name})@slot x@end@end")
            body = self.MARK + "\n" + "\n".join(stmts)
        else:  # slot-body
            files.append(("tpl/components/card.tw", "file", "<div>%s{{ title }}@slot</div>" % self.MARK))
            stmts.insert(fail_at if fail_at is not None else 0, "@component('~card', {title: name})@slot x %s@end@end" % fault)
            body = self.MARK + "\n" + "\n".join(stmts)
        return [("tpl/pg.tw", "file", body)] + files

    SHAPES = ["plain", "plain", "nested", "layout-arg", "layout-block", "component-arg", "component-body", "slot-body"]

    def generate(self, rng, tier):
        lines = []
        reps = {"quick": 8, "thorough": 60, "search": 12}[tier]
        i = 0
        for debug in (0, 1):
            for custom in ("none", "valid", "missing", "failing"):
                for outcome in ("ok", "fail", "missing"):
                    for rep in range(reps):
                        fail_at = rng.randrange(0, 7) if outcome == "fail" else None
                        shape = self.SHAPES[rep % len(self.SHAPES)]
                        files = self.page(rng, fail_at, shape)
                        errpage = ""
                        if custom == "valid":
                            files.append(("tpl/errpg.tw", "file", "<h1>custom error page</h1>"))
                            errpage = "errpg"
                        elif custom == "missing":
                            errpage = "nosuchpage"
                        elif custom == "failing":
                            files.append(("tpl/errpg.tw", "file", "custom {{ undefinedincustom }}"))
                            errpage = "errpg"
                        name = "pg" if outcome != "missing" else "ghost"
                        # the configuration in force is the LAST one: earlier NewTemplate calls with the other debug
                        # setting (and another error page) must leave no trace
                        pre = []
                        k = rng.random()
                        if k < 0.25:
                            pre = [op_new("tpl", ".tw", errpage, 1 - debug)]
                        elif k < 0.4:
                            pre = [op_new("tpl", ".tw", errpage, 1 - debug), op_response(name, TREE_DATA)]
                        elif k < 0.5:
                            pre = [op_new("tpl", ".tw", errpage, debug), op_new("tpl", ".tw", errpage, 1 - debug)]
                        b = len(pre)
                        ops = pre + [op_new("tpl", ".tw", errpage, debug), op_response(name, TREE_DATA), op_string(name, TREE_DATA)]
                        cons = ["nopanic", "ok:%d" % b]
                        r, st = b + 1, b + 2
                        if outcome == "ok":
                            cons += ["ok:%d" % r, "ok:%d" % st, "body:%d:" % r + hx(self.MARK), "bodyout:%d:%d" % (r, st)]
                        else:
                            cons += ["err:%d" % r, "err:%d" % st, "nobody:%d:" % r + hx(self.MARK)]
                            if debug == 0:
                                cons += ["nobodymsg:%d" % r, "nobody:%d:" % r + hx("secret"), "nobody:%d:" % r + hx("$ROOT"),
                                         "nobody:%d:" % r + hx("tpl/"), "nobody:%d:" % r + hx("template not found")]
                                if custom == "valid":
                                    cons += ["body:%d:" % r + hx("custom error page")]
                                elif custom == "none":
                                    cons += ["body:%d:" % r + hx("Oops!")]
                            else:
                                cons += ["body:%d:" % r + hx("$ROOT/tpl/"), "body:%d:" % r + hx("Error!")]
                                cons += ["bodymsg:%d" % r]
                        lines.append(tree_case("C17:%d" % i, files, ops, cons))
                        i += 1
        # the error page written is the one configured NOW: several failing responses of one loaded template with the
        # configuration changed in between (textwire.Configure), and an error page whose content differs per call
        for rep in range({"quick": 12, "thorough": 120, "search": 24}[tier]):
            files = self.page(rng, rng.randrange(0, 7), self.SHAPES[rep % len(self.SHAPES)]) + [
                ("tpl/erra.tw", "file", "<h1>Error page A</h1>"), ("tpl/errb.tw", "file", "<h1>Error page B</h1>"),
                ("tpl/errbroken.tw", "file", "<h1>Error page C {{ undefinedincustom }}</h1>")]
            seq = [rng.choice(["erra", "errb", "errbroken", "nosuchpage"]) for _ in range(rng.choice([2, 3, 4]))]
            ops = [op_new("tpl", ".tw", seq[0], 0), op_response("pg", TREE_DATA)]
            cons = ["nopanic", "ok:0"]
            for pg in seq[1:]:
                ops += [op_configure("tpl", ".tw", pg, 0), op_response("pg", TREE_DATA)]
            for j, pg in enumerate(seq):
                r = 1 + 2 * j
                cons += ["err:%d" % r, "nobodymsg:%d" % r, "nobody:%d:" % r + hx(self.MARK), "nobody:%d:" % r + hx("secret")]
                for nm, txt in (("erra", "Error page A"), ("errb", "Error page B")):
                    cons += [("body:%d:" if pg == nm else "nobody:%d:") % r + hx(txt)]
                cons += ["nobody:%d:" % r + hx("Error page C")]
            lines.append(tree_case("C17:c%d" % i, files, ops, cons))
            i += 1
        return lines, {"exhaustive": True, "distribution": {"combinations": 24, "repetitions": reps, "page_shapes": len(set(self.SHAPES)),
                                                             "with_reconfiguration": sum(1 for l in lines if l.count("286e657720") > 1)}}


PROPS["C17"] = C17()


# ----------------------------------------------------------------------------- C18

class C18(Prop):
    timeout_ms = 6000
    rule = ("directory trees with up to 5 files over the names {a, b, a.tw, b.tw.bak, notes.twx, x.tw/inner, layouts/l} at "
            "depth <= 2 x directory spellings {d, d/, ./d, d/sub/.., d//, d/e} x extensions {.tw, .tw.html, .html}; oracle: "
            "NewTemplate registers exactly the files that end in the extension under their relative name, layouts are not "
            "renderable, unknown names are 'template not found', EvaluateFile = EvaluateString of the content. Fault "
            "enumeration over valid trees: every file x {deleted (layout/component), truncated at every prefix, replaced by "
            "garbage, dangling symlink, directory in its place}: loading returns an error that names the faulty file (path or "
            "name) or succeeds when the truncated file is still valid, and never panics or hangs.")
    explanation = ("Theorems: name derivation is prefix/suffix trimming, so distinct files get distinct names and a file is "
                   "registered iff its path ends in the extension (model lemmas); loading is all-or-nothing (the model "
                   "returns either a template table or one error). Correspondence: loader model = implementation on every "
                   "tree. Oracle: the expected name set and the fault table.")
    assumptions = ["unreadable files cannot be produced when the harness runs as root; dangling symlinks and directories stand in for them"]

    def generate(self, rng, tier):
        lines = []
        spell = [("d", "d"), ("d/", "d"), ("./d", "d"), ("d/sub/..", "d"), ("d//", "d"), ("d/e", "d/e"), ("./d/e/", "d/e")]
        exts = [".tw", ".tw.html", ".html"]
        n = {"quick": 400, "thorough": 5000, "search": 1000}[tier]
        for i in range(n):
            sp, real = rng.choice(spell)
            ext = rng.choice(exts)
            cands = [("a" + ext, "A"), ("b" + ext, "B{{ 1 }}"), ("sub/c" + ext, "C"), ("sub/deep/d" + ext, "D"), ("a" + ext + ".bak", "@if("),
                     ("notes" + ext + "x", "{{ ) }}"), ("x" + ext + "/inner" + ext, "I"), ("layouts/l" + ext, "L@reserve('r')"),
                     ("readme.md", "@if("), ("sub/a" + ext, "SA"), ("b" + ext + ext, "BB"), ("sub/c" + ext + ext, "CC"),
                     # the content of a file is its bytes: a byte order mark, a trailing newline, CRLF are not trimmed
                     ("bom" + ext, "\ufeff<p>{{ 1 + 2 }}</p>\n"), ("sub/bom2" + ext, "\ufeffB"), ("nl" + ext, "\n\nN\r\n \n"), ("sp" + ext, "  S  ")]
            chosen = rng.sample(cands, rng.choice([1, 2, 3, 4, 5]))
            files = [(real + "/" + p, "file", c) for p, c in chosen]
            if rng.random() < 0.3:
                files.append((real + "/emptydir", "dir", ""))
            names = sorted(p[: -len(ext)] for p, c in chosen if p.endswith(ext) and "@reserve" not in c)
            ops = [op_new(sp, ext)]
            cons = ["nopanic", "out:0:" + (",".join(hx(x) for x in names) if names else "-")]
            k = 1
            for nm in names[:2]:
                content = dict((p[: -len(ext)], c) for p, c in chosen if p.endswith(ext))[nm]
                ops += [op_string(nm), op_evalstr(content), op_evalfile(real + "/" + nm + ext)]
                cons += ["eq:%d:%d" % (k, k + 1), "eq:%d:%d" % (k + 1, k + 2)]
                k += 3
            ops.append(op_string("no/such"))
            cons += ["err:%d" % k, "msgsub:%d:%s" % (k, hx("template not found"))]
            k += 1
            # a name is looked up as it is: spelling the extension does not find the file, and a file whose
            # name ends in the extension twice is found under the name that keeps one of them
            for nm in names[:3]:
                if (nm + ext) not in names:
                    ops.append(op_string(nm + ext))
                    cons += ["err:%d" % k, "msgsub:%d:%s" % (k, hx("template not found"))]
                    k += 1
            for nm in names:
                if nm.endswith(ext):
                    ops.append(op_string(nm))
                    cons += ["ok:%d" % k]
                    k += 1
            if any("@reserve" in c and p.endswith(ext) for p, c in chosen):
                ops.append(op_string("layouts/l"))
                cons += ["err:%d" % k]
            lines.append(tree_case("C18:%d" % i, files, ops, cons))
        # fault enumeration on valid trees
        base = [("tpl/pg.tw", "@use('~m')@insert('t', 1)@component('~c', {a: 2})@slot body@end@end"), ("tpl/layouts/m.tw", "<l>@reserve('t')</l>"),
                ("tpl/components/c.tw", "[{{ a }}@slot]"), ("tpl/plain.tw", "@if(true)ok@else no@end{{ 1 + 2 }}")]
        j = 0
        # a component referenced only from a layout, and a layout referenced only through a nested page
        base_b = [("tpl/pg.tw", "@use('~m')@insert('t', 1)"), ("tpl/layouts/m.tw", "<l>@component('~nav')@reserve('t')</l>"),
                  ("tpl/components/nav.tw", "[nav]"), ("tpl/plain.tw", "ok"), ("tpl/sub/pg2.tw", "@use('~m')@insert('t')x@end")]
        for vname, kind in [("deleted", None), ("dir", "dir"), ("dangling", "dangling"), ("garbage", "file")]:
            for victim in ("tpl/components/nav.tw", "tpl/layouts/m.tw"):
                files = []
                for p2, c2 in base_b:
                    if p2 == victim:
                        if kind is not None:
                            files.append((p2, kind, "@if({{ ] ) @end {" if kind == "file" else ""))
                    else:
                        files.append((p2, "file", c2))
                lines.append(tree_case("C18:f%d" % j, files, [op_new("tpl", ".tw"), op_string("plain")], ["nopanic", "err:0", "msgsub:0:" + hx("")]))
                j += 1
        lines.append(tree_case("C18:f%d" % j, [(p2, "file", c2) for p2, c2 in base_b], [op_new("tpl", ".tw"), op_string("pg"), op_string("sub/pg2")],
                               ["nopanic", "ok:0"]))   # what a component inside a LAYOUT renders is outside C06/C07/C18 (model = implementation only)
        j += 1
        for fi, (path, content) in enumerate(base):
            variants = [("garbage", "file", "@if({{ ] ) @end {"), ("dangling", "dangling", ""), ("dir", "dir", "")]
            if path != "tpl/pg.tw" and path != "tpl/plain.tw":
                variants.append(("deleted", None, None))
            step = 1 if tier == "thorough" else 3
            for cut in range(0, len(content), step):
                variants.append(("prefix%d" % cut, "file", content[:cut]))
            for vname, kind, c in variants:
                files = []
                for p2, c2 in base:
                    if p2 == path:
                        if kind is not None:
                            files.append((p2, kind, c if kind == "file" else ""))
                    else:
                        files.append((p2, "file", c2))
                nm = path.split("/")[-1][:-3]
                cons = ["nopanic"]
                if vname in ("garbage", "dangling", "deleted"):
                    cons += ["err:0", "msgsub:0:" + hx("")]
                lines.append(tree_case("C18:f%d" % j, files, [op_new("tpl", ".tw"), op_string("plain")], cons))
                j += 1
        return lines, {"exhaustive": False, "distribution": {"trees": n, "fault_variants": j}}

    def post_check(self, results):
        # a failing load must identify the faulty file: by path, or by the layout/component name in the message
        import binascii
        bad = []
        for r in results:
            f = r["case"].split("\t")
            if not f[0].startswith("C18:f") or not r["impl"].startswith("TREE\t"):
                continue
            first = r["impl"].split("\t")[1].split("|")[0].split(" ")
            if first[0] != "ERR":
                continue
            path = binascii.unhexlify(first[2]).decode() if first[2] != "-" else ""
            msg = binascii.unhexlify(first[3]).decode(errors="replace") if first[3] != "-" else ""
            if not path and not any(x in msg for x in ("layouts/m", "components/c", "components/nav", "~nav", "~m", "~c", "tpl")):
                bad.append((r, "the load error identifies no file: " + msg[:80]))
        return bad


PROPS["C18"] = C18()


# ----------------------------------------------------------------------------- C20

class C20(Prop):
    timeout_ms = 6000
    rule = ("operation histories over {Register(type, name, fn), call on a literal, call on a variable, NewTemplate}: every "
            "sequence of length <= 3 (quick) / 4 (thorough) over the five receiver types x names {myfn, len (collides with "
            "a built-in for strings, arrays, integers)} x two functions per type, followed by calls on a literal and on a "
            "variable of every type; the expected observation of every step is computed from the abstract registry (first "
            "registration per (type, name) wins; built-in first). Argument/result conversion: echo and args functions "
            "called with nested arrays/objects, ints, floats, strings, booleans, nil. Unregistered calls must name function "
            "and type.")
    explanation = ("Theorems: registry state machine - after any history the registered function for (type, name) is the "
                   "first one registered, the k-th attempt fails iff an earlier one succeeded, types are independent; "
                   "object -> native -> object conversion is the identity on int/float/string/bool/nil/array/object. "
                   "Correspondence: API model = implementation on every history. Oracle: abstract registry.")
    TYPES = {"str": ("STRING", "'abc'", "sv", {"const": "K", "const2": "K2", "id": "abc"}),
             "arr": ("ARRAY", "[5, 6]", "av", {"const": "1, x", "const2": "2", "id": "5, 6"}),
             "int": ("INTEGER", "7", "iv", {"const": "42", "const2": "43", "id": "7"}),
             "float": ("FLOAT", "2.5", "fv", {"const": "1.5", "const2": "2.5", "id": "2.5"}),
             "bool": ("BOOLEAN", "true", "bv", {"const": "1", "const2": "0", "id": "1"})}
    DATA = "((%s (str %s)) (%s (slice (int 5) (int 6))) (%s (int 7)) (%s (f64 %s)) (%s (bool 1)))" % (
        hx("sv"), hx("abc"), hx("av"), hx("iv"), hx("fv"), f64bits(2.5), hx("bv"))
    BUILTIN_LEN = {"str": "3", "arr": "2", "int": "1"}

    def generate(self, rng, tier):
        lines = []
        regs = [(t, n, f) for t in self.TYPES for n in ("myfn", "len") for f in ("const", "const2")]
        maxlen = {"quick": 2, "thorough": 3, "search": 2}[tier]
        seqs = []
        for n in range(1, maxlen + 1):
            for s in itertools.product(range(len(regs)), repeat=n):
                seqs.append(list(s))
        if tier != "thorough":
            extra = [[rng.randrange(len(regs)) for _ in range(rng.choice([3, 4]))] for _ in range(600)]
            seqs += extra
        for i, s in enumerate(seqs):
            ops, cons, table = [], ["nopanic"], {}
            files = [("tpl/p.tw", "file", "page")]
            for k, ri in enumerate(s):
                t, n, f = regs[ri]
                if rng.random() < 0.15:
                    ops.append(op_new("tpl", ".tw"))
                    cons.append("ok:%d" % (len(ops) - 1))
                ops.append("(reg %s %s %s)" % (t, hx(n), f))
                if (t, n) in table:
                    cons += ["err:%d" % (len(ops) - 1), "msgsub:%d:%s" % (len(ops) - 1, hx(n))]
                else:
                    table[(t, n)] = f
                    cons.append("ok:%d" % (len(ops) - 1))
            # calls on literals and variables of every type
            for t, (tyname, lit, var, outs) in self.TYPES.items():
                for n in ("myfn", "len"):
                    for recv in (lit, var):
                        ops.append(op_evalstr("{{ %s.%s() }}" % (recv, n), self.DATA))
                        idx = len(ops) - 1
                        if n == "len" and t in self.BUILTIN_LEN:
                            cons.append("out:%d:%s" % (idx, hx(self.BUILTIN_LEN[t])))
                        elif (t, n) in table:
                            cons.append("out:%d:%s" % (idx, hx(outs[table[(t, n)]])))
                        else:
                            cons += ["err:%d" % idx, "msgsub:%d:%s" % (idx, hx(n)), "msgsub:%d:%s" % (idx, hx(tyname))]
            lines.append(tree_case("C20:%d" % i, files, ops, cons))
        # conversion of arguments and results
        argsets = ["1", "1, 2.5, 'x', true, nil", "[1, [2, 'a'], {k: [nil]}]", "{a: {b: {c: 1}}, z: []}", "-5, 0.5", "[]", "{}", "'é<'",
                   "9223372036854775807", "[[[]]]", "[1.5, {q: false}]"]
        for i, a in enumerate(argsets):
            ops = ["(reg str %s echo)" % hx("ec"), "(reg arr %s args)" % hx("ar"), "(reg arr %s echo)" % hx("ec"),
                   "(reg int %s nargs)" % hx("na"), op_evalstr("{{ 'r'.ec(%s) }}" % a), op_evalstr("{{ [1, 'z'].ec(%s) }}" % a),
                   op_evalstr("{{ [0].ar(%s) }}|{{ [%s] }}" % (a, a)), op_evalstr("{{ 3.na(%s) }}" % a),
                   op_new("tpl", ".tw"), op_evalstr("{{ 'r'.ec(%s) }}" % a)]
            cons = ["nopanic", "ok:0", "ok:1", "ok:2", "ok:3", "ok:4", "ok:5", "ok:6", "ok:7", "eq:4:9"]
            lines.append(tree_case("C20:c%d" % i, [("tpl/p.tw", "file", "p")], ops, cons))
        # a function that changes the slice it received in place and returns it: the result counts, whatever its identity
        for i, recv in enumerate(["[1, 3, 2]", "[5]", "[]", "av", "['a', [1, 2], {k: 1}]", "[1, 2].append(3)", "[1, 2, 3, 4].slice(1)"]):
            ops = ["(reg arr %s revip)" % hx("rv"), "(reg arr %s id)" % hx("same"),
                   op_evalstr("{{ %s.rv() }}" % recv, self.DATA), op_evalstr("{{ %s.reverse() }}" % recv, self.DATA),
                   op_evalstr("{{ x = %s }}{{ x.rv() }}|{{ x }}|{{ x.same() }}|{{ x.rv().rv() }}" % recv, self.DATA),
                   op_evalstr("{{ x = %s }}{{ x.reverse() }}|{{ x }}|{{ x }}|{{ x }}" % recv, self.DATA)]
            lines.append(tree_case("C20:m%d" % i, [("tpl/p.tw", "file", "p")], ops,
                                   ["nopanic", "ok:0", "ok:1", "ok:2", "ok:3", "eq:2:3", "eq:4:5"]))
        # a custom array function that returns a nil slice (a filter that matches nothing): an empty ARRAY, not nil
        ops = ["(reg arr %s nilres)" % hx("nr"), op_evalstr("{{ [1, 3].nr().len() }}"), op_evalstr("@each(v in [1].nr())x@else E@end"),
               op_evalstr("{{ [2].nr().append(1) }}"), op_evalstr("{{ x = [1].nr() }}{{ x.len() }}|{{ x.append(7).len() }}"),
               op_evalstr("{{ [].nr().len() }}")]
        lines.append(tree_case("C20:n0", [("tpl/p.tw", "file", "p")], ops,
                               ["nopanic", "ok:0", "out:1:" + hx("0"), "out:2:" + hx(" E"), "out:3:" + hx("1"), "out:4:" + hx("0|1"), "out:5:" + hx("0")]))
        # a result that holds a value textwire cannot represent is an error, like the same value passed as data
        for i, fn in enumerate(["unsup", "unsup2"]):
            ops = ["(reg arr %s %s)" % (hx("bad"), fn), op_evalstr("{{ [1].bad() }}"), op_evalstr("{{ x = [1, 2].bad() }}ok"),
                   op_evalstr("@each(v in av.bad()){{ v }}@end", self.DATA), op_evalstr("{{ [1].bad().len() }}"), op_evalstr("{{ [2].len() }}")]
            lines.append(tree_case("C20:u%d" % i, [("tpl/p.tw", "file", "p")], ops,
                                   ["nopanic", "ok:0", "err:1", "err:2", "err:3", "err:4", "out:5:" + hx("1")]))
        # custom functions are available wherever a template is evaluated: in component files, slot bodies, layouts, inserts
        files = [("tpl/page.tw", "file", "{{ name.sh() }}|@component('~card', {title: name})@slot {{ name.sh() }}@end@end"),
                 ("tpl/components/card.tw", "file", "<b>{{ title.sh() }}</b>@slot"),
                 ("tpl/lp.tw", "file", "@use('~l')@insert('t', name.sh())@insert('b'){{ name.sh() }}@end"),
                 ("tpl/layouts/l.tw", "file", "<t>@reserve('t')</t>@reserve('b'){{ name.sh() }}")]
        d = "((%s (str %s)))" % (hx("name"), hx("ann"))
        ops = ["(reg str %s const)" % hx("sh"), op_new("tpl", ".tw"), op_string("page", d), op_string("lp", d)]
        lines.append(tree_case("C20:f0", files, ops, ["nopanic", "ok:0", "ok:1", "out:2:" + hx("K|<b>K</b> K"), "out:3:" + hx("<t>K</t>KK")]))
        # a function registered at ANY point of a Template's life is callable from its templates: before loading, after
        # loading, after the first render, after a failing render, and from a second Template loaded in between
        k = 0
        for t, (tyname, lit, var, outs) in self.TYPES.items():
            files = [("tpl/plain.tw", "file", "plain"), ("tpl/use.tw", "file", "{{ %s.late() }}|{{ %s.late() }}" % (lit, var)),
                     ("tpl/bad.tw", "file", "{{ zz }}")]
            want = "out:%%d:%s" % hx("%s|%s" % (outs["const"], outs["const"]))
            reg = "(reg %s %s const)" % (t, hx("late"))
            plans = [[reg, op_new("tpl", ".tw"), op_string("use", self.DATA)],
                     [op_new("tpl", ".tw"), reg, op_string("use", self.DATA)],
                     [op_new("tpl", ".tw"), op_string("plain", self.DATA), reg, op_string("use", self.DATA)],
                     [op_new("tpl", ".tw"), op_string("bad", self.DATA), reg, op_string("use", self.DATA), op_string("plain", self.DATA), op_string("use", self.DATA)],
                     [op_new("tpl", ".tw"), op_string("use", self.DATA), reg, op_string("use", self.DATA)],
                     [op_new("tpl", ".tw"), op_string("plain", self.DATA), op_new("tpl", ".tw"), reg, op_string("use", self.DATA)]]
            for ops in plans:
                cons = ["nopanic"]
                seen = False
                for j, o in enumerate(ops):
                    if o == reg:
                        seen = True
                        cons.append("ok:%d" % j)
                    elif o.startswith("(string") and hx("use") in o:
                        cons += ([want % j] if seen else ["err:%d" % j, "msgsub:%d:%s" % (j, hx("late"))])
                lines.append(tree_case("C20:l%d" % k, files, ops, cons))
                k += 1
        return lines, {"exhaustive": False, "distribution": {"registration_sequences": len(seqs), "conversion_cases": len(argsets)},
                       "exhaustive_part": "all registration sequences of length <= %d over %d (type, name, fn) triples" % (maxlen, len(regs))}

    def post_check(self, results):
        # the result of args(...) must print like the same literal array: "{{ [0].ar(a) }}|{{ [a] }}"
        import binascii
        bad = []
        for r in results:
            f = r["case"].split("\t")
            if not f[0].startswith("C20:c") or not r["impl"].startswith("TREE\t"):
                continue
            obs = r["impl"].split("\t")[1].split("|")
            if len(obs) > 6 and obs[6].startswith("OK "):
                out = binascii.unhexlify(obs[6][3:]).decode(errors="replace")
                if "|" in out:
                    a, b = out.split("|", 1)
                    if a != b:
                        bad.append((r, "a function result does not appear as if the Go value had been passed as data: %r vs %r" % (a, b)))
        return bad


PROPS["C20"] = C20()


# ----------------------------------------------------------------------------- C11

class C11(Prop):
    rule = ("every built-in x receivers (empty, ASCII, multi-byte, boundary integers, nested arrays/objects, data-supplied) "
            "x argument tuples: all (len, start, end) with len <= 4 and bounds in -6..6 for slice/at/truncate, all wrong-kind "
            "tuples of arity <= 2, random tuples beyond; multi-step purity scenarios (the receiver and the arguments are "
            "read again after one or two calls on the same stored value; results of earlier calls are read again after "
            "later calls); UTF-8 validity of every string result. Expected results come from the extracted contract "
            "specification (Spec/BuiltinSpec.v) run by the extracted template semantics. shuffle is checked as a "
            "permutation by multiset; upper/lower/capitalize on non-ASCII text are outside the modelled contract.")
    explanation = ("Theorems: contract lemmas on the specification (reverse is an involution and preserves length, slice "
                   "never exceeds its bounds, append/prepend extend, results of functions defined through decode/encode are "
                   "valid UTF-8); the model's built-ins equal the specification on the proved functions. Correspondence: "
                   "render model = implementation. Oracle: implementation output = specification output.")
    assumptions = ["case mapping is specified for ASCII only", "float printing is specified on the dyadic class"]

    STRS = ["", "abc", "héllo", "日本語テキスト", " pad ", "a,b,,c", "12", "-7", "x", "ab", "ÀÉ"]
    # first letters whose upper/lower-case form has a different UTF-8 length, or none at all: outside the
    # specified case mapping, but the result must still be valid UTF-8 and the call must not panic
    CASE_STRS = ["ıstanbul", "ſtrasse", "ⱥb", "ɐbc", "ɐ", "ɫ", "ßa", "ǆx", "ŉ", "ı", "Ⱥ", "İi", "éa", "ÿ", "ǰ", "ΐ", "ﬁn", "ⓐ", "𐐨x"]
    ARRS = ["(arr)", "(arr (int 1))", "(arr (int 1) (int 2))", "(arr (int 1) (int 2) (int 3))", "(arr (int 1) (int 2) (int 3) (int 4))",
            "(arr (str %s 1) (str %s 1))" % (hx("a"), hx("b")), "(arr (arr (int 1)) (arr))", "(arr (obj (k (int 1))) (nil))", "(var arr3)",
            "(var strs)", "(var empty)"]

    def sval(self, s):
        return "(str %s 1)" % hx(s)

    def ival(self, i):
        return "(int %d)" % i if i >= 0 else "(neg (int %d))" % -i

    def generate(self, rng, tier):
        data = hx(cond_data())
        cases = []   # (kind, tree)
        rngb = range(-6, 7)
        # exhaustive small numeric domains
        for n in range(0, 5):
            arr = "(arr %s)" % " ".join("(int %d)" % (k + 1) for k in range(n)) if n else "(arr)"
            s = "héöx"[:n]
            for a in rngb:
                cases.append(("xexpr", "(call %s slice %s)" % (arr, self.ival(a))))
                cases.append(("xexpr", "(call %s at %s)" % (self.sval(s), self.ival(a))))
                cases.append(("xexpr", "(call %s truncate %s)" % (self.sval(s), self.ival(a))))
                cases.append(("xexpr", "(call %s truncate %s %s)" % (self.sval(s), self.ival(a), self.sval("~"))))
                cases.append(("xexpr", "(call %s repeat %s)" % (self.sval(s), self.ival(a))))
                cases.append(("xexpr", "(call %s decimal %s %s)" % (self.sval("12"), self.sval("."), self.ival(a))))
                for b in rngb:
                    cases.append(("xexpr", "(call (call %s slice %s %s) join)" % (arr, self.ival(a), self.ival(b))))
        # every function on every receiver with no / simple arguments
        for s in self.STRS:
            r = self.sval(s)
            for fn in ["len", "reverse", "first", "last", "capitalize", "upper", "lower", "trim", "trimLeft", "trimRight", "split", "decimal", "raw"]:
                cases.append(("xexpr", "(call %s %s)" % (r, fn)))
            for fn, a in [("contains", self.sval("b")), ("contains", self.sval("")), ("split", self.sval(",")), ("split", self.sval("")),
                          ("trim", self.sval("a ")), ("trimLeft", self.sval("x")), ("at", "(int 1)"), ("repeat", "(int 2)"),
                          ("truncate", "(int 2)"), ("decimal", self.sval(","))]:
                cases.append(("xexpr", "(call (call %s %s %s) len)" % (r, fn, a) if fn == "split" else "(call %s %s %s)" % (r, fn, a)))
        for s in self.CASE_STRS:
            for fn in ["capitalize", "upper", "lower", "reverse", "len", "first", "last"]:
                cases.append(("xexpr", "(call %s %s)" % (self.sval(s), fn)))
            cases.append(("xexpr", "(call (call %s capitalize) len)" % self.sval(s)))
            cases.append(("xexpr", "(call %s truncate (int 1))" % self.sval(s)))
        for a in self.ARRS:
            for fn in ["len", "reverse", "join", "rand"]:
                cases.append(("xexpr", "(call %s %s)" % (a, fn)))
            for fn, x in [("append", "(int 9)"), ("prepend", "(int 9)"), ("contains", "(int 2)"), ("contains", "(arr (int 1))"),
                          ("contains", "(obj (k (int 1)))"), ("contains", "(nil)"), ("contains", self.sval("a")), ("join", self.sval("-"))]:
                cases.append(("xexpr", "(call %s %s %s)" % (a, fn, x)))
        # contains is structural equality: an object element equals only an object with exactly the same pairs
        anna = "(obj (name %s) (age (int 21)))" % self.sval("anna")
        for a, x in [("(arr %s (int 3))" % anna, "(obj (name %s))" % self.sval("anna")), ("(arr %s (int 3))" % anna, anna),
                     ("(arr %s)" % anna, "(obj (age (int 21)) (name %s))" % self.sval("anna")), ("(arr %s)" % anna, "(obj (name %s) (age (int 22)))" % self.sval("anna")),
                     ("(arr (obj (id (int 1))))", "(obj)"), ("(arr (obj))", "(obj)"), ("(arr (obj))", "(obj (id (int 1)))"),
                     ("(arr (arr (obj (id (int 1)) (admin (bool 1)))))", "(arr (obj (id (int 1))))"),
                     ("(arr (arr (obj (id (int 1)) (admin (bool 1)))))", "(arr (obj (id (int 1)) (admin (bool 1))))"),
                     ("(arr (obj (a (obj (b (int 1)) (c (int 2))))))", "(obj (a (obj (b (int 1)))))"),
                     ("(var users)", "(obj (name %s))" % self.sval("bob")), ("(arr (arr (int 1) (int 2)))", "(arr (int 1))"),
                     ("(arr (arr (int 1) (int 2)))", "(arr (int 1) (int 2))"), ("(arr (int 1) (float 10 1))", "(float 10 1)")]:
            cases.append(("xexpr", "(call %s contains %s)" % (a, x)))
        # round at the values where adding one half is not exact
        for m, k in [(49999999999999994, 17), (5, 1), (50000000000000006, 17), (45035996273704970, 1), (45035996273704990, 1),
                     (90071992547409910, 1), (90071992547409890, 1), (22517998136852485, 1), (15, 1), (25, 1), (44999999999999996, 16)]:
            for neg in (False, True):
                r = "(float %d %d)" % (m, k)
                r = "(neg %s)" % r if neg else r
                for fn in ["round", "floor", "ceil", "int"]:
                    cases.append(("xexpr", "(call %s %s)" % (r, fn)))
        for v in ["fhm", "fnhm", "fo52", "fno52", "fo53", "fe52", "fh3", "f25", "fn25", "dtiny", "dntiny"]:
            for fn in ["round", "floor", "ceil", "int", "abs"]:
                cases.append(("xexpr", "(call (var %s) %s)" % (v, fn)))
        for z in [0, 7, -7, 12345, 9223372036854775807]:
            r = self.ival(z)
            for fn in ["abs", "str", "float", "len", "decimal"]:
                cases.append(("xexpr", "(call %s %s)" % ("(var small)" if z == -7 and fn == "abs" and rng.random() < 0.5 else r, fn)))
        for m, k in [(0, 1), (15, 1), (25, 1), (35, 1), (5, 1), (125, 2), (275, 2), (1000, 1), (49, 1), (51, 1)]:
            for neg in (False, True):
                r = "(float %d %d)" % (m, k)
                r = "(neg %s)" % r if neg else r
                for fn in ["abs", "int", "ceil", "floor", "round", "str"]:
                    cases.append(("xexpr", "(call %s %s)" % (r, fn)))
        for b in ["(bool 1)", "(bool 0)", "(var dt)", "(var df)"]:
            cases += [("xexpr", "(call %s binary)" % b), ("xexpr", "(call %s then (int 1))" % b), ("xexpr", "(call %s then (int 1) %s)" % (b, self.sval("n")))]
        # wrong-kind arguments
        kinds = ["(int 1)", "(float 15 1)", self.sval("s"), "(bool 1)", "(nil)", "(arr (int 1))", "(obj (k (int 1)))"]
        fns = [("(str %s 1)" % hx("abc"), f) for f in ["split", "trim", "contains", "truncate", "decimal", "at", "repeat"]] + \
              [("(arr (int 1) (int 2))", f) for f in ["join", "slice", "contains", "append", "prepend"]] + [("(bool 1)", "then")] + \
              [("(str %s 1)" % hx("12"), "decimal"), ("(int 7)", "decimal"), ("(str - 1)", "decimal")]
        for r, fn in fns:
            cases.append(("xexpr", "(call %s %s)" % (r, fn)))
            for a in kinds:
                cases.append(("xexpr", "(call %s %s %s)" % (r, fn, a)))
                for b in (kinds if tier == "thorough" else rng.sample(kinds, 2)):
                    cases.append(("xexpr", "(call %s %s %s %s)" % (r, fn, a, b)))
        # purity: multi-step scenarios on stored values
        n = {"quick": 1500, "thorough": 20000, "search": 4000}[tier]
        afn = [("append", ["(int 9)"]), ("append", ["(int 8)", "(int 7)"]), ("prepend", ["(int 0)"]), ("reverse", []), ("slice", ["(int 1)"]),
               ("slice", ["(int 0)", "(int 2)"]), ("slice", ["(int 0)", "(int 1)"]), ("join", []), ("contains", ["(int 2)"]), ("len", [])]
        sfn = [("reverse", []), ("upper", []), ("trim", []), ("truncate", ["(int 1)"]), ("repeat", ["(int 2)"]), ("split", []), ("capitalize", [])]
        for _ in range(n):
            if rng.random() < 0.7:
                base = rng.choice(self.ARRS[:5] + ["(var arr3)", "(arr (int 1) (int 2) (int 3) (int 4) (int 5))",
                                                   "(call (arr (int 1) (int 2) (int 3) (int 4)) slice (int 0) (int 2))"])
                fl = afn
            else:
                base = self.sval(rng.choice(self.STRS))
                fl = sfn
            nodes = ["(assign a %s)" % base]
            names = []
            for j in range(rng.choice([1, 2, 2, 3])):
                fn, args = rng.choice(fl)
                src = rng.choice(["a"] + [nm for nm in names if rng.random() < 0.3])
                nm = "r%d" % j
                nodes.append("(assign %s (call (var %s) %s %s))" % (nm, src, fn, " ".join(args)))
                names.append(nm)
            for nm in names + ["a"]:
                nodes += ["(print (var %s))" % nm, T("|")]
            cases.append(("xtpl", B(nodes)))
        lines = []
        for i, (kind, t) in enumerate(cases):
            if kind == "xexpr":
                lines.append("\t".join(["C11:%d" % i, "xexpr", hx(t), "-", "-", data]))
            else:
                lines.append("\t".join(["C11:%d" % i, "xtpl", hx(t), data]))
        return lines, {"exhaustive": False, "distribution": {"single_calls": sum(1 for k, _ in cases if k == "xexpr"), "purity_scenarios": n},
                       "exhaustive_part": "all (len, start, end) with len <= 4, bounds -6..6 for slice; all (len, i) for at/truncate/repeat/decimal"}

    def post_check(self, results):
        bad = []
        for r in results:
            if r["impl"].startswith("RENDER\tOK\t"):
                h = r["impl"].split("\t")[2]
                if h != "-":
                    import binascii
                    try:
                        binascii.unhexlify(h).decode("utf-8")
                    except UnicodeDecodeError:
                        bad.append((r, "valid UTF-8 input gave invalid UTF-8 output"))
            elif r["impl"].startswith("PANIC") or r["impl"].startswith("CRASH"):
                bad.append((r, "a built-in call panicked: " + r["impl"][:200]))
        return bad


PROPS["C11"] = C11()


# ----------------------------------------------------------------------------- C12

class C12(Prop):
    rule = ("Go data values generated by type-directed recursion to depth 4: bool, string, int/int8..int64, uint/uint8..uint64, "
            "float32/64, nil, pointers (incl. nil pointers and pointers to pointers), []any and typed slices, string-keyed maps "
            "(any and typed), structs built at run time with exported and unexported fields, and unsupported kinds (chan, "
            "func, complex, array) at every depth; for each value every access path (field, field with lower-cased first "
            "letter, key through dot and index syntax, position, through pointers) is rendered and compared with the literal "
            "the specification derives from the Go value; unexported fields must be unreachable; unsupported kinds anywhere "
            "must make the call fail; the harness deep-snapshots the data before and after every render.")
    explanation = ("Theorems: the data conversion model maps every supported value to the value of the same shape and "
                   "returns unsupported for a value that contains an unsupported kind at any depth (induction on the Go "
                   "value). Correspondence: render model = implementation. Oracle: path access = literal; the data is "
                   "unchanged after rendering (DATA-MUTATED flag of the harness).")
    assumptions = ["caller data immutability is observed by the harness, not proved"]

    def gen(self, rng, d):
        """returns (data s-expr, list of (access path suffix, expected text or None for 'not printable scalar'), supported?)"""
        k = rng.random()
        if d <= 0 or k < 0.35:
            c = rng.random()
            if c < 0.25:
                w = rng.choice(["int", "int8", "int16", "int32", "int64", "uint", "uint8", "uint16", "uint32", "uint64"])
                v = rng.choice([0, 1, 7, 100, 127] + ([-1, -128] if not w.startswith("u") else [255] if w != "uint8" else [200]))
                if w == "int8":
                    v = max(-128, min(127, v))
                if rng.random() < 0.15:
                    # a value of a NAMED type whose kind is an integer kind (time.Duration, an enum): an integer all the same
                    w, v = rng.choice([("nint", rng.choice([0, 7, -1, 3600])), ("nint8", rng.choice([0, -128, 127])), ("nuint16", rng.choice([0, 65535]))])
                return "(%s %d)" % (w, v), [("", str(v))], True
            if c < 0.4:
                v = rng.choice([0.5, 1.5, -2.25, 3.0, 100.125])
                w = rng.choice(["f64", "f32", "f64", "nf64"])
                txt = ("%.1f" % v) if v == int(v) else repr(v)
                return "(%s %s)" % (w, f64bits(v)), [("", txt)], True
            if c < 0.6:
                s = rng.choice(["", "plain", "<b>&", "héllo", "with \"quote\""])
                return "(%s %s)" % (rng.choice(["str", "str", "str", "nstr"]), hx(s)), [("", s)], True
            if c < 0.7:
                b = rng.choice([0, 1])
                return "(%s %d)" % (rng.choice(["bool", "bool", "nbool"]), b), [("", str(b))], True
            if c < 0.8:
                return rng.choice(["(nil)", "(nilptr int)", "(nilptr str)"]), [("", "")], True
            if c < 0.9:
                # an unsupported kind stays unsupported when its value happens to be nil (an unset callback or channel field)
                # ... and a map is supported only with string keys
                return rng.choice(["(chan)", "(func)", "(complex)", "(array2)", "(nilchan)", "(nilfunc)", "(imap)", "(bmap)"]), [], False
            return "(ptr (int 5))", [("", "5")], True
        if k < 0.5:
            inner, paths, ok = self.gen(rng, d - 1)
            return "(ptr %s)" % inner, paths, ok
        if k < 0.7:
            n = rng.choice([0, 1, 2, 3])
            items = [self.gen(rng, d - 1) for _ in range(n)]
            paths = []
            for i, (_, ps, _) in enumerate(items):
                paths += [("[%d]%s" % (i, p), t) for p, t in ps]
            paths.append(("[%d]" % n, ""))      # past the end: nil
            return "(slice %s)" % " ".join(x for x, _, _ in items), paths, all(ok for _, _, ok in items)
        if k < 0.85:
            # keys that differ only in the case of the first letter live side by side in a Go map: the exact
            # spelling must win over the capitalised fallback
            keys = rng.sample(["k", "name", "Age", "x1", "é", "Name", "age", "id", "Id", "ID", "K"], rng.choice([1, 2, 3, 4]))
            items = [(key, self.gen(rng, d - 1)) for key in keys]
            paths = []
            for key, (_, ps, _) in items:
                for p, t in ps:
                    paths.append(("[\"%s\"]%s" % (key, p), t))
                    if key.isascii() and key.isidentifier():
                        paths.append((".%s%s" % (key, p), t))
            return "(map %s)" % " ".join("(%s %s)" % (hx(key), x) for key, (x, _, _) in items), paths, all(ok for _, (_, _, ok) in items)
        fields = rng.sample(["Name", "Age", "Items", "X", "ID", "hidden", "secret2"], rng.choice([1, 2, 3, 4]))
        items = []
        for f in fields:
            if f[0].islower():
                # an unexported field is not data, whatever its kind: a done channel, a callback, a fixed-size buffer
                items.append((f, (rng.choice(["(int 99)", "(int 99)", "(chan)", "(func)", "(array2)", "(complex)", "(imap)"]), [], True)))
            else:
                items.append((f, self.gen(rng, d - 1)))
        paths = []
        for f, (_, ps, _) in items:
            if f[0].islower():
                paths.append((".%s" % f, None))          # must be unreachable: an error
                continue
            for p, t in ps:
                paths.append((".%s%s" % (f, p), t))
                paths.append((".%s%s" % (f[0].lower() + f[1:], p), t))
                paths.append(("[\"%s\"]%s" % (f, p), t))
        ok = all(ok for f, (_, _, ok) in items if not f[0].islower())
        return "(struct %s)" % " ".join("(%s %s)" % (f, x) for f, (x, _, _) in items), paths, ok

    def generate(self, rng, tier):
        lines = []
        n = {"quick": 1500, "thorough": 25000, "search": 4000}[tier]
        idx = 0
        for _ in range(n):
            dsx, paths, ok = self.gen(rng, rng.choice([1, 2, 3, 4]))
            data = "((%s %s) (%s (int 1)))" % (hx("v"), dsx, hx("other"))
            if not ok:
                lines.append(tree_case("C12:u%d" % idx, [], [op_evalstr("static {{ other }}", data)], ["err:0", "msgsub:0:" + hx("unsupported"), "nopanic"]))
                idx += 1
                continue
            rng.shuffle(paths)
            for p, t in paths[:6]:
                src = "{{ v%s }}" % p
                if t is None:
                    cons = ["err:0", "nopanic"]
                else:
                    cons = ["out:0:" + hx(t), "nopanic"]
                lines.append(tree_case("C12:%d" % idx, [], [op_evalstr(src, data)], cons))
                idx += 1
        # one access expression evaluated on values of different Go shapes: a struct (field through its lower-cased first
        # letter), a map with the literal key, a pointer to a struct - in one loop, in every order, and over renders of one
        # loaded template
        st = lambda n, a: "(struct (Name (str %s)) (Age (int %d)))" % (hx(n), a)
        mp = lambda n, a: "(map (%s (str %s)) (%s (int %d)))" % (hx("name"), hx(n), hx("age"), a)
        people = [(st("Ann", 30), "Ann:30;"), (mp("Bob", 41), "Bob:41;"), ("(ptr %s)" % st("Cid", 52), "Cid:52;"), (mp("Dee", 7), "Dee:7;")]
        for perm in itertools.permutations(range(4), 3):
            items = [people[i] for i in perm]
            data = "((%s (slice %s)))" % (hx("v"), " ".join(x for x, _ in items))
            lines.append(tree_case("C12:h%d" % idx, [], [op_evalstr("@each(a in v){{ a.name }}:{{ a.age }};@end", data)],
                                   ["out:0:" + hx("".join(t for _, t in items)), "nopanic"]))
            idx += 1
            files = [("tpl/card.tw", "file", "<b>{{ author.name }}</b>({{ author.age }})")]
            ops = [op_new("tpl", ".tw")] + [op_string("card", "((%s %s))" % (hx("author"), x)) for x, _ in items] + \
                  [op_string("card", "((%s %s))" % (hx("author"), items[0][0]))]
            cons = ["ok:0", "nopanic"] + ["out:%d:%s" % (j + 1, hx("<b>%s</b>(%s)" % tuple(t[:-1].split(":")))) for j, (_, t) in enumerate(items + [items[0]])]
            lines.append(tree_case("C12:h%d" % idx, files, ops, cons))
            idx += 1
        # sharing is not a cycle: one pointer, slice or map reachable twice inside one value converts like two equal values
        SH = [("(shared)", "{{ v[0] }}{{ v[1] }}{{ v[2].p }}", "555"),
              ("(sharedptr)", "{{ v[0].author.name }}, {{ v[1].author.name }}|{{ v[1].title }}", "Ann, Ann|b"),
              ("(sharedslice)", "{{ v.a[0] }}{{ v.b[1] }}{{ v.all[1][0] }}{{ v.all[0].len() }}", "xyx2"),
              ("(sharedmap)", "{{ v.a.k }}{{ v.b.k }}{{ v.l[1].k }}", "111"),
              ("(slice (sharedptr) (sharedptr))", "{{ v[1][0].author.name }}", "Ann"),
              ("(map (%s (sharedmap)) (%s (sharedslice)))" % (hx("m"), hx("s")), "{{ v.m.b.k }}{{ v.s.b[0] }}", "1x")]
        for dsx, src, out in SH:
            data = "((%s %s) (%s %s))" % (hx("v"), dsx, hx("w"), dsx)
            lines.append(tree_case("C12:s%d" % idx, [], [op_evalstr(src, data), op_evalstr(src.replace("v", "w").replace("{{ w.all[1][0] }}{{ w.all[0].len() }}", "{{ w.all[1][0] }}{{ w.all[0].len() }}"), data)],
                                   ["out:0:" + hx(out), "nopanic"]))
            idx += 1
        return lines, {"exhaustive": False, "distribution": {"values": n, "path_cases": idx}}

    def post_check(self, results):
        return [(r, "rendering modified the caller's data") for r in results if "DATA-MUTATED" in r["impl"]]


PROPS["C12"] = C12()



# ----------------------------------------------------------------------------- C15

class C15(Prop):
    timeout_ms = 120000
    rule = ("a loaded tree (layout page, component page with a loop, failing pages, custom error page on/off, debug on/off) "
            "and the operations {String ok / failing / missing, Response ok / failing, EvaluateString ok / failing, "
            "EvaluateFile}; G goroutines (2, 8, 32) x R rounds issue them in shuffled order with Gosched noise; every "
            "concurrent result is compared with the sequential baseline. The whole run is repeated with a harness built "
            "with the race detector (halt_on_error): a report kills the worker and is a failure. GOMAXPROCS 1, 4, 16. "
            "This search supports the decision; the decision is the footprint theorem.")
    explanation = ("Theorems: (1) computed on the footprint tables regenerated from the source (package-level writes per "
                   "function, call graph): no function reachable from String / Response / EvaluateString / EvaluateFile "
                   "assigns a package-level variable (atomic Store/Load calls are listed separately) or an AST field; "
                   "(2) generic: if every step of every call leaves the shared state unchanged, then in every interleaving "
                   "each call returns what it returns alone (induction on the schedule). PARTIAL: the Go memory model, the "
                   "scheduler and state invisible to a syntactic footprint (none expected: no unsafe, no cgo) are not "
                   "modelled; the race-detector run and the baseline comparison only search for a witness.")
    assumptions = ["no custom function is registered concurrently with renders (the property starts after registration)",
                   "the footprint analysis is syntactic (go/ast): writes through aliases of package-level variables would escape it"]

    def generate(self, rng, tier):
        files = C16.FILES
        # shuffle() is random, but the LENGTH of its result is not: these operations exercise the random source
        # concurrently while keeping every observation comparable with the sequential baseline
        ops = C16().opset(shuffle=True)
        lines = []
        i = 0
        for errpage, debug in (("", 0), ("errpg", 0), ("errpg", 1), ("", 1)):
            for G in ((2, 8, 32) if tier != "search" else (8,)):
                R = {"quick": 6, "thorough": 60, "search": 10}[tier]
                lines.append("\t".join(["C15:%d" % i, "conc", hx(fsx(files)), hx(opx([op_new("tpl", ".tw", errpage, debug)] + ops)), str(G), str(R)]))
                i += 1
        return lines, {"exhaustive": False, "distribution": {"runs": i}}


PROPS["C15"] = C15()
