"""One table of what is claimed per property: (category, text, DESIGN.md section, technique).
Used by tools/mkmanifest.py (MANIFEST.json) and tools/check.py (evidence level).
category 'proof' is used only where Properties/<id>.v holds kernel-checked theorems about the
model that the correspondence run ties to /repo; 'other' = the Coq model + extracted
specification decide the property on generated instances (correspondence + oracle), theorems
for it are not there yet."""

NOTE = ("Trusted: Coq 8.16.1 kernel, the go/ast translator, ExtrOcamlBasic extraction + OCaml driver, the Go harness; "
        "the algorithmic tie between model and code is a correspondence (differential) run, bounded by its generators. "
        "See DESIGN.md section 10.")

PENDING = ("The Coq model of the code involved is tied to /repo by the correspondence run and the extracted "
           "specification is the oracle on generated instances of the property's quantifier; the theorems about this "
           "property's model are not finished, so this is NOT claimed at proof level yet.")

CLAIMS = {
 "C01": ("proof", "Both halves are theorems. Semantic half, by induction over all specification expressions (through argument lists and "
         "object literals): the evaluator model applied to the expression's AST gives exactly the specification value - wrapping int64, "
         "IEEE-754 binary64 via Flocq, byte strings, same-type rule, errors for mixed types, /0, %0 and unknown identifiers - for every "
         "environment and sufficient fuel. Syntactic half (Proofs/Pratt.v): for every concrete syntax tree that respects the binding powers "
         "regenerated from parser.go - atoms, parentheses (redundant or not), the 11 binary operators, prefix - and !, postfix ++/--, the "
         "ternary, indexing, property access, method calls and array literals with any number of arguments - the token sequence of the tree "
         "parses to exactly the AST of the tree, with whatever fuel the parser returns (fuel monotonicity, Proofs/FuelMono.v) and with the "
         "fuel parse_tokens allots (ParseTotal.v); two neighbouring binary operators group to the left exactly when the second does not bind "
         "tighter; the statement {{ c }} parses to one expression statement, whose value is the specification's (ExprPipeline.v). Go's "
         "binding-power table is a strictly monotone image of the property's levels and the operand precedences of every parseExpression "
         "call site are pinned. From the source BYTES (Proofs/LexRound.v, the lexer read backwards): a source that spells a checked list "
         "of items - any white space between the tokens of code - is lexed to exactly the items' tokens, so the three theorems compose: "
         "bytes -> tokens -> AST -> specification value (C01_from_source_bytes_to_value). Not a theorem: object literals in the syntactic "
         "half. The printer -> lexer -> parser round trip is also run on every ordered pair/triple of operator forms and random trees "
         "under layouts (model = implementation, implementation = specification value).",
         "8.C01", "Pratt-parser correctness theorem (tokens of a tree parse to the tree) + refinement theorem evaluator-model = specification semantics + translator-pinned precedence tables + extracted printer/semantics as oracle"),
 "C02": ("proof", "Refinement theorem (induction on the specification's fuel over nodes, blocks, @each and @for passes together): on the AST of "
         "every specification template the model's statement evaluator gives the same output, signal and scope chain as the clean big-step "
         "semantics of Spec/Template.v, and an error where it says error - so @if renders exactly the first branch whose condition is truthy, "
         "conditions evaluated left to right in the enclosing scope and none after the chosen one; one truthiness for all conditionals. "
         "Expressions through the C01 theorem. Syntactic half (Proofs/StmtParse.v): the tokens of every well-formed statement tree - text, "
         "{{ e }}, assignments, @if/@elseif/@else, @each with @else, @break(If)/@continue(If), any nesting and body length - parse to exactly "
         "the tree, with the fuel parse_tokens allots; and from the source BYTES (Proofs/LexRound.v + TemplatePipeline.v): a source that spells "
         "a checked list of items whose tokens are those of a tree that spells the specification template ns (first line) is lexed to those "
         "tokens, parsed to the program of ns and rendered by the model of EvaluateString as the specification says "
         "(C02_from_source_bytes_to_output); Proofs/LineIrrelevance.v (programs equal up to line fields evaluate alike except for the "
         "line of an error - mutual induction over all nine evaluation functions) lifts this to templates on any number of lines "
         "(C02_from_source_bytes_to_output_any_lines), and Proofs/EvalMono.v (an outcome other than out-of-fuel is the outcome for "
         "every larger fuel - mutual induction again) removes the bound on the evaluator's fixed fuel: whenever the model of "
         "EvaluateString answers, it answers what the specification says (C02_from_source_bytes_whenever_it_answers). Tied to evaluator.go / parser.go / lexer.go by the correspondence run; the specification is "
         "also the oracle on enumerated @if shapes.", "8.C02",
         "refinement proof model-evaluator vs big-step specification + correspondence + extracted specification as oracle"),
 "C03": ("proof", "Same refinement theorem for loops: the model's each_loop / for_loop (marker objects found by a recursive scan through "
         "nested Blocks, output concatenated per pass, @for post value re-bound to the init variable) refine the specification's passes with "
         "signals: same output and scope chain after any number of passes, break ends the innermost loop only, continue the pass only, "
         "empty @each / false-at-entry @for renders @else; loop metadata per pass; non-array is an error. Hypothesis: a ++/-- post clause "
         "steps the init variable. The same tokens -> tree and bytes -> tokens -> tree -> output theorems as C02 for @each bodies with "
         "@else and for @for - every header clause optional, the third an expression or an assignment - with @break, @continue, @breakIf, "
         "@continueIf (C03_from_source_bytes_to_output, C03_lexed_for_loop_renders). Tied by "
         "correspondence; specification also the oracle on enumerated loop shapes.", "8.C03",
         "refinement proof (marker scan = signals) by mutual induction + correspondence + specification oracle"),
 "C04": ("proof", "Frame theorem by induction over the evaluator (a statement changes at most the innermost frame; @if restores the chain), "
         "type stability and the reserved name over any assignment sequence, and - through the refinement theorem - the model's scope chain "
         "after any statement is the specification's; every entry of every accepted data map is read through any nesting of scopes that do "
         "not bind its name and after any assignments made in scopes that have ended (C04_data_entry_read_everywhere) (assignment binds in the innermost block, one child scope per @if/loop discarded at "
         "@end, env_set = the specification's assign); from the source bytes of templates with assignments at any nesting position to "
         "the specification's scope chain (C04_from_source_bytes_to_output). Tied by correspondence.", "8.C04",
         "invariant by induction over evaluator fuel and assignment sequences + refinement to the scoped big-step specification"),
 "C05": ("proof", "Theorems: for every byte string with no NUL, no "
         "'{{' and no '@' that starts a directive keyword (table regenerated from token.go) the lexer model yields one text token whose "
         "literal is the input then EOF (loop invariant of readHTML), the parser one HTML statement, and the model's render is the input "
         "itself for any data; for every byte string whose only active syntax is escapes (a backslash directly before '{{' or before a "
         "directive keyword) the single text token holds the text with exactly those backslashes removed and the render is that text - in "
         "both cases what the reference scanner of Spec/Text.v says; for every lexer state in text mode standing on a terminated comment, "
         "NextToken is NextToken of the state just after the terminator the specification's find_term finds: no token, whatever the "
         "comment holds; and (Proofs/LexRound.v) in every source that spells a checked list of items, each text run between {{ }} blocks and "
         "directives - any bytes but NUL, line feeds, backslashes and ESCAPES included (a backslash directly before '{{' or a directive "
         "keyword goes, the escaped syntax is text) - is one HTML token whose literal is the run with its escapes removed, at its exact "
         "(line, column), and comments before any item of text mode and at the end yield no token; with the parser and evaluator theorems "
         "(C05_from_source_bytes_to_output) such a source renders its text runs, escapes removed, around the values of its code. "
         "Exhaustive short strings over the escape/comment alphabet and spliced segments run against the reference scanner; the evidence "
         "counts the generated sources that lie inside the round-trip theorem's domain.",
         "8.C05", "loop-invariant proofs over the lexer model (text, escapes, comment skip, round trip) + parser/evaluator theorems + extracted reference scanner as oracle"),
 "C06": ("proof", "End-to-end theorem on the loader and evaluator model (Proofs/LayoutRefine.v): for every layout tree - reserves at any "
         "nesting depth inside @if / @elseif / @else / @each / @for, within the loader's depth budget - and every assignment of inserts "
         "(block form, expression form, none), a page that declares @use of that layout - with or without component uses in its insert bodies (their blocks are attached, uses "
         "nested in slot bodies included) - loads to the layout alone and "
         "Template.String renders exactly what the big-step semantics of Spec/Template.v gives for the layout tree with the inserts put "
         "into its reserves (fill), with the data of the call: the body rendered at the reserve's place, the value of the expression "
         "form, nothing for an unfilled reserve; an error where the semantics says error. Composed from: the loader's rewriting is fill up "
         "to line numbers (induction on the depth budget), line numbers only matter in errors (LineIrrelevance.v), and the evaluator "
         "refinement theorem, which now covers reserve nodes. Step theorems as before: a page with @use loads to the layout's program "
         "alone; insert without reserve and missing layout are load errors, a layout using a layout fails at render; '~x' is "
         "'layouts/x'. The wording taken literally is a theorem of the specification too (ReserveSplice.v on SpecMono.v: the budget of the "
         "semantics only decides whether it answers): in the list of nodes where a reserve stands, a reserve filled by a block insert gives "
         "the same result as the insert's nodes spliced in its place (for inserts that do not end in a loose @break/@continue), the "
         "expression form is the print statement, an unfilled reserve is nothing. The equation against the implementation (String(page) = "
         "EvaluateString of the layout text with reserves textually replaced) is decided on generated trees; duplicate inserts are decided there too.", "8.C06",
         "refinement theorem (evaluator vs big-step semantics with reserve nodes) + loader rewriting = fill (induction on depth) + correspondence + substitution oracle on generated trees"),
 "C07": ("proof", "Evaluation, end to end (Proofs/TemplateRefine.v, Proofs/LoadedRender.v): the big-step semantics of Spec/Template.v has "
         "component uses (arguments in key order, each evaluated at the place of use and bound in a fresh scope on top of the scopes of that "
         "place, the component file rendered there, the caller's scopes as they were) and slot placeholders (the passed body rendered where "
         "the placeholder stands, or nothing), and the refinement theorem covers them: for EVERY page tree with any number of uses at any "
         "depth - in loops, conditionals, slot bodies, inside other components, one component several times with different arguments and "
         "bodies - Template.String on a loaded template whose statements are those of the tree (up to line numbers) gives exactly what the "
         "semantics gives, an error where it says error (also in the form 'whenever the model answers at all'). Uses are independent: "
         "on the specification a use leaves the scope chain exactly as it was (SpecScopes.v: a statement writes at most the innermost scope, "
         "blocks, loops and uses restore the chain), so two uses in a row render what each renders alone from the same scopes. Loader (Layouts.v): every use of a component is resolved on its own "
         "(block = function of the file and that use's slots), a passed body goes to the first top-level placeholder of its name and "
         "nothing else changes (induction over the statement list), undeclared slot / slot passed twice / missing file are load errors "
         "naming the component. ALL slots of one use (SlotFill.v): ApplyComponent puts every passed body into the first top-level placeholder of its name, in "
         "the order written - the block attached to a use is, up to lines, the component's tree with fill_slots applied, and an undeclared "
         "slot makes the load fail. Not a theorem: the walk that attaches the blocks to all uses of a page at once (rw_stmt through nested "
         "slot bodies; the worked example discharges it by computation); generated trees are decided against the per-use substitution "
         "oracle.", "8.C07",
         "refinement theorem (evaluator vs big-step semantics with component and slot nodes) + step theorems and induction over statement lists on the loader model + correspondence + per-use substitution oracle"),
 "C08": ("proof", "Proved for every byte string, on the lexer and parser models: NextToken always returns; each call consumes input, returns "
         "EOF, or returns an ILLEGAL token that the next call returns again unchanged, so the token stream is finite and ends in EOF or "
         "ILLEGAL (lex_all is total); the parser - all 20 mutually recursive parse functions - returns on every such token list within the "
         "fuel the model allots (depth <= 6 per remaining token + rank: every loop iteration and every cycle of the call graph consumes a "
         "token), never through the branch in which the Go code would panic, with a program and no recorded error or with at least one "
         "error, each carrying a line >= 1; an input on which the lexer stops at an illegal character is always rejected; and (ParseReject.v) a "
         "token list that holds an ILLEGAL token anywhere - illegal character, unterminated string, unterminated comment - is always "
         "rejected, given that an ILLEGAL token is followed only by ILLEGAL/EOF and EOF is last (no parse function steps over a token "
         "before it has seen its type or seen that the next token cannot follow an ILLEGAL one). The parser's loop guards are "
         "regenerated from parser.go. That shape of the lexer's output is a theorem too (Proofs/LexShape.v: for every byte string the "
         "token list ends in EOF or ILLEGAL, holds EOF only last, and an ILLEGAL token is followed by nothing but its own repetition), so "
         "every SOURCE whose token list holds an ILLEGAL token is rejected (C08_source_with_illegal_token_is_rejected); and an unterminated "
         "block is rejected (Proofs/OpenBlocks.v): the tokens of any complete statements followed by an @if or @each without its @end - "
         "holding any complete statements and, nested to any depth, further open blocks - or by an unterminated '{{ expr' / '{{ x = expr' (inside any open blocks or alone) - and the end of the input always end in errors. "
         "Not theorems: cuts inside an argument list or object literal (ParseTotal.v gives program-or-error there; the oracle demands "
         "the error on every prefix and mutation of generated templates and exhaustive lexeme sequences), and that the models are the "
         "code (correspondence, with a watchdog outside the process).", "8.C08",
         "termination + program-or-error theorems for the lexer and parser models (measure: remaining tokens, rank on the call graph) + translator-pinned loop guards + exhaustive lexeme-sequence oracle"),
 "C09": ("proof", "Theorem by mutual induction over the evaluator's fuel: on a well-formed program (no nil node where one is dereferenced, "
         "dot keys are identifiers, component arguments are object literals) no expression, statement, block, loop or render of the model "
         "reaches a Panic outcome, for every environment, data map and amount of fuel; operators and property access are total. The model marks "
         "every Go panic site with an explicit Panic; built-ins have no panic outcome and their guards are compared with the code on boundary "
         "counts and wrong-kind arguments. The hypothesis wf_program is no longer only checked: Proofs/ParseWf.v proves that EVERY program the "
         "parser model returns, from any token list that ends in EOF or ILLEGAL (every list the lexer produces: LexAll.v), is well-formed "
         "(invariant over all 20 parse functions), so evaluate_string never reaches Panic for ANY source and data "
         "(C09_evaluate_string_never_panics). @dump is inside the model now (Object.Dump for every value an expression can have, the "
         "frame regenerated from object/dump.go), so the theorem covers its arguments too. wf_program is still extracted and evaluated on "
         "every parsed program of the run.", "8.C09",
         "never-Panic theorem by mutual induction + parser-output well-formedness theorem + correspondence on an untyped program generator"),
 "C10": ("proof", "Theorems: the model's evalString equals the specification escaper; its output has no raw < >, every & starts an "
         "entity, quotes are kept, unescape and raw() give back the literal exactly. From the source bytes (LiteralPipeline.v): for EVERY "
         "literal content s - any bytes but NUL, the quote in use and the backslash; line feeds, < > &, invalid UTF-8 included - the template "
         "{{ \"s\" }} (either quote style) is lexed to {{, one string token with literal s, }}, parsed to one expression statement and "
         "rendered as esc_spec s, whatever the data. Tied by correspondence over an exhaustive alphabet sweep in six contexts.", "8.C10",
         "induction over the literal with one-byte lookahead + lexer round trip + statement parser theorem + correspondence"),
 "C11": ("proof", "Theorem: for every function name, receiver and argument list the built-in model (mirror of evaluator/*_func.go) meets the "
         "contract written from the property text (Spec/BuiltinSpec.v): the contract's value where it gives one, an error or 'no such "
         "function' where it says error - 17 string, 9 array, 5 integer, 6 float, 2 boolean functions, all arities and kinds; plus contract "
         "facts (slice is a contiguous segment for all bounds, reverse is an involution, append/prepend extend) and 'a built-in name wins over "
         "a custom function'; UTF-8: encoding any list of Unicode scalar values gives valid UTF-8, decoding it gives the list back, so the "
         "character functions (reverse, at/first/last, truncate) return valid UTF-8 on valid input. The model is tied to the code by receivers "
         "x argument tuples x boundary counts; purity of every implementation result is observed by the run, not proved. Round 8: "
         "decimal() checked its arguments only when the receiver was an integer text ('abc'.decimal(123) returned 'abc'); the contract "
         "says an error for wrong argument kinds for every receiver - repaired in the code, the model and the contract.", "8.C11",
         "model-meets-contract theorem over all names/receivers/arguments + correspondence + extracted contract as oracle"),
 "C12": ("proof", "Theorems by induction over the abstract Go value (through slices, maps, structs, pointers): the data conversion succeeds "
         "exactly when no unsupported kind occurs at any depth outside unexported fields; scalars keep their value (integers as int64), "
         "pointers are transparent, slice elements correspond position by position, map entries key by key, exported struct fields name by "
         "name and through the lower-cased first letter, unexported fields are unreachable; for every accepted data map (distinct keys, any "
         "presentation order) every entry is bound in the one root scope to its conversion and no other name is bound. The model "
         "is tied to NativeToObject/EnvFromMap/evalObjectIndexExp by type-directed Go values built by reflection; caller-data immutability "
         "is observed by deep comparison, not proved.", "8.C12",
         "structural induction over Go values (custom nested induction principle) + correspondence on reflected data"),
 "C13": ("proof", "PARTIAL (from source text to token end line is C19; fixed-width tokens proved there). Proved here: every AST node keeps "
         "the line on which its token ends; which node's line each kind of fault reports (undefined identifier, mistyped operands and "
         "division by zero: left operand; unknown function: the name; unknown property: the dot / the index expression; unexpected token: "
         "the peeked token); every enclosing construct passes the error on unchanged; a failing render names the template's own file, a "
         "load error the file being parsed. From the source bytes (ErrorLinePipeline.v): any text T (any number of lines) followed by "
         "{{ name }} with name unbound fails with 'identifier not found' at line 1 + (line feeds in T), by the lexer round trip with exact "
         "positions, the statement parser theorem and the evaluator; the same template in a FILE of a loaded tree fails with that line AND the "
         "path of that file (undefined_identifier_in_a_file). End to end for the other kinds: one fault of each kind injected at a "
         "line known by construction behind every kind of multi-line token.", "8.C13",
         "step theorems on parser/evaluator/loader model + C19 position invariant + fault injection with known line"),
 "C14": ("proof", "A Go map is an association list with distinct keys presented in an arbitrary permutation. Theorems: the key sort of two "
         "presentations is the same list (strict total order on byte strings, uniqueness of sorted permutations), hence data binding, object "
         "printing, what @dump shows for an object, object literals, component arguments, the first undefined insert and the first faulty "
         "file are independent of the presentation. That the code sorts at exactly these sites is observed: repetitions in-process and in fresh processes must agree.", "8.C14",
         "permutation-invariance theorems for every map consumer + repetition/fresh-process oracle"),
 "C15": ("proof", "PARTIAL (the Go memory model and heap sharing are outside the model). Proved: on the call graph and footprint tables "
         "regenerated from every non-test .go file on every run, nothing reachable from String/Response/EvaluateString/EvaluateFile assigns "
         "a package-level variable, the only method called on one is the atomic store of the mode flag, and nothing reachable reads that "
         "flag; generic theorem by induction over schedules: if no step changes what steps read, every call is in every interleaving where "
         "it is alone. The check runs G goroutines of mixed renders against the sequential baseline, also under the race detector.", "8.C15",
         "footprint lemmas over translator-generated call graph (vm_compute) + schedule-independence theorem + race-detector search"),
 "C16": ("proof", "Frame theorem on the API state machine: every render operation leaves templates, configuration and registry "
         "unchanged; by induction over histories an operation observes what it observes when issued first. Tied by correspondence on "
         "exhaustive short histories against a fresh-state baseline.", "8.C16",
         "frame property + induction over operation histories (fold_left) + correspondence"),
 "C17": ("proof", "Theorems on the Response model: success writes the rendered page and returns no error; a failure returns the error and "
         "shows the custom page (debug off) or the built-in page, never template output; the built-in page - regenerated from "
         "default-error-page.tw every run and evaluated with path, line and message left symbolic - is ONE constant when debug is off "
         "(non-interference: two different failures give the same body) and contains path, line and message when debug is on.", "8.C17",
         "symbolic evaluation of the regenerated error page (vm_compute + reflection) + case analysis of Response + correspondence"),
 "C18": ("proof", "Theorems on the loader model: the registered name of dir/NAME.ext is exactly NAME for every NAME (extension or directory "
         "name occurring inside it included), so names are injective; the files found are exactly the non-directories under the directory "
         "whose path ends in the extension; loading is all-or-nothing and reports the first faulty file in name order; layouts are not "
         "registered; an unknown name is 'template not found'; EvaluateFile = EvaluateString of the content. Tied to files.go / "
         "parser_utils.go by tree enumeration over directory spellings, extensions and every single-file fault.", "8.C18",
         "list/prefix-suffix lemmas + induction over the file list + correspondence on enumerated trees and faults"),
 "C19": ("proof", "Invariant proved in Coq: the lexer's counters equal the pure position function at every reachable offset; every token "
         "NextToken returns - text runs, strings, identifiers, numbers, directives, operators, braces, with comments skipped on the way - "
         "starts and ends at the (line, column) of byte offsets of the input, never before the lexer's position, and ends before its new "
         "position when it consumed input; the token list of an input is exact and ordered (induction over the lexer's loops and over "
         "NextToken's fuel). The lexer read backwards (Proofs/LexRound.v): for every list of items (token type, source spelling, white "
         "space or comments before it) that passes the computable check source_ok - text runs, {{ }}, every directive, identifiers, "
         "keywords, numbers, strings with escaped quotes, every operator and bracket, nested braces and parentheses, any number of lines - "
         "the lexer model returns exactly the items' tokens: type, literal, and the (line, column) of the first and last byte, then EOF; "
         "the extracted check in_domain is evaluated on every generated input and the evidence reports how many lie inside the theorem's "
         "domain. Tiling (blank gaps), own text and Position.Contains at every cursor are checked by the extracted oracle on "
         "the implementation's tokens; the model is tied to lexer.go by translator tables and a full-token-list correspondence run.",
         "8.C19", "invariant by induction over readChar and every reading loop + refinement-checked model + extracted oracle"),
 "C20": ("proof", "Registry as a state machine: first registration per (type, name) wins and is never replaced, per-type independence, "
         "the registry survives any later operation history (induction over operation lists); dispatch consults exactly this registry. "
         "Tied by correspondence on exhaustive short histories.", "8.C20",
         "state-machine invariant by induction over operation lists + correspondence"),
}
