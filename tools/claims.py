"""One table of what is claimed per property: (category, text, DESIGN.md section, technique).
Used by tools/mkmanifest.py (MANIFEST.json) and tools/check.py (evidence level).
category 'proof' is used only where Properties/<id>.v holds kernel-checked theorems about the
model that the correspondence run ties to /repo; 'other' = the Coq model + extracted
specification decide the property on generated instances (correspondence + oracle), theorems
for it are not there yet."""

NOTE = ("Trusted: Coq 8.16.1 kernel, the go/ast translator, ExtrOcamlBasic extraction + OCaml driver, the Go harness; "
        "the algorithmic tie between model and code is a correspondence (differential) run, bounded by its generators. "
        "See DESIGN.md section 10.")

PENDING = ("The Coq model of the code involved is tied to /repo by the correspondence run and the extracted "
           "specification is the oracle on generated instances of the property's quantifier; the theorems about this "
           "property's model are not finished, so this is NOT claimed at proof level yet.")

CLAIMS = {
 "C01": ("other", "Expression specification (levels, minimal-parenthesis printer with layout oracle, typed semantics) written in Coq "
         "from the property text and extracted; every ordered pair/triple of operator forms and random trees are rendered by the "
         "printer and the implementation must show the specification's value. " + PENDING, "8.C01",
         "extracted Coq specification as oracle + model/implementation correspondence (theorems pending)"),
 "C02": ("proof", "Step theorems on the evaluator model: one truthiness for all conditionals, first truthy branch is the one evaluated, "
         "later conditions are not evaluated, nothing without @else, surrounding text unaffected. Evaluator model tied to evaluator.go by "
         "the correspondence run; the clean template semantics (Spec/Template.v) is the oracle on enumerated @if shapes.", "8.C02",
         "evaluator-model theorems + correspondence + extracted big-step specification as oracle"),
 "C03": ("proof", "Theorems on the evaluator model: the recursive marker scan finds @break/@continue at any Block depth, a block stops at a "
         "marker, loop metadata per pass, empty @each renders @else, non-array fails with an error. Tied by correspondence; big-step "
         "specification is the oracle on enumerated loop shapes.", "8.C03",
         "evaluator-model theorems (marker scan = signal) + correspondence + specification oracle"),
 "C04": ("proof", "Frame theorem by induction over the evaluator: a statement changes at most the innermost frame, @if leaves the chain "
         "unchanged; type stability and the reserved name over any sequence of assignments (fold). Tied by correspondence.", "8.C04",
         "invariant by induction over evaluator fuel and over assignment sequences"),
 "C05": ("other", "Text/segment specification in Coq, extracted; exhaustive short strings over the escape/comment alphabet and spliced "
         "segments must render as the specification says. " + PENDING, "8.C05",
         "extracted Coq specification as oracle + lexer model correspondence (theorems pending)"),
 "C06": ("other", "Loader model + substitution specification of layouts, extracted; generated trees. " + PENDING, "8.C06",
         "extracted Coq specification as oracle + loader model correspondence (theorems pending)"),
 "C07": ("other", "Loader model + per-use substitution specification of components, extracted; generated trees. " + PENDING, "8.C07",
         "extracted Coq specification as oracle + loader model correspondence (theorems pending)"),
 "C08": ("proof", "PARTIAL: lexer totality proved (NextToken returns from every state within a fuel bound linear in the remaining "
         "input); the parser's loop guards are regenerated from parser.go and pinned by a theorem. Parser termination and the "
         "program-or-error contract are decided by correspondence and oracle over exhaustive lexeme sequences and mutations.", "8.C08",
         "termination proof for the lexer model + translator-pinned loop guards + exhaustive lexeme-sequence oracle"),
 "C09": ("other", "Evaluator model marks every Go panic site with an explicit Panic outcome; untyped program generator and built-in "
         "argument sweep; oracle: never PANIC/crash, errors carry a line. " + PENDING, "8.C09",
         "model with explicit Panic outcomes + correspondence + never-panics oracle (theorems pending)"),
 "C10": ("proof", "Theorems: the model's evalString equals the specification escaper; its output has no raw < >, every & starts an "
         "entity, quotes are kept, unescape and raw() give back the literal exactly. Tied by correspondence over an exhaustive "
         "alphabet sweep in six contexts.", "8.C10", "induction over the literal with one-byte lookahead + correspondence"),
 "C11": ("other", "One-line contracts per built-in in Spec/BuiltinSpec.v, extracted; receivers x argument tuples x boundary counts; "
         "purity observed by the harness. " + PENDING, "8.C11",
         "extracted Coq contracts as oracle + built-in model correspondence (theorems pending)"),
 "C12": ("other", "goval/view specification in Coq, extracted; type-directed Go values built by reflection. " + PENDING, "8.C12",
         "extracted Coq specification as oracle + data-binding model correspondence (theorems pending)"),
 "C13": ("other", "Fault injection with the line known by construction; model lines = implementation lines. " + PENDING, "8.C13",
         "fault injection oracle + model correspondence (theorems pending)"),
 "C14": ("other", "Repetitions in-process and in fresh processes must agree with each other and with the (order-free) model. " + PENDING,
         "8.C14", "repetition oracle + model correspondence (theorems pending)"),
 "C15": ("other", "Concurrent runs compared with the sequential baseline, race detector run. " + PENDING, "8.C15",
         "concurrent/sequential oracle + race detector (theorems pending)"),
 "C16": ("proof", "Frame theorem on the API state machine: every render operation leaves templates, configuration and registry "
         "unchanged; by induction over histories an operation observes what it observes when issued first. Tied by correspondence on "
         "exhaustive short histories against a fresh-state baseline.", "8.C16",
         "frame property + induction over operation histories (fold_left) + correspondence"),
 "C17": ("other", "Response model + selection table, all debug x error-page x outcome combinations. " + PENDING, "8.C17",
         "extracted Coq specification as oracle + Response model correspondence (theorems pending)"),
 "C18": ("other", "Loader model over an abstract file system; tree/fault enumeration. " + PENDING, "8.C18",
         "extracted Coq specification as oracle + loader model correspondence (theorems pending)"),
 "C19": ("proof", "Invariant proved in Coq: the lexer's counters equal the pure position function at every reachable offset; "
         "fixed-width and EOF tokens carry exactly lc(start)/lc(end). The lexer model is tied to lexer.go by translator "
         "tables plus a full-token-list correspondence run; the extracted tiling checker is applied to the implementation's tokens.",
         "8.C19", "invariant by induction over readChar + refinement-checked model + extracted oracle"),
 "C20": ("proof", "Registry as a state machine: first registration per (type, name) wins and is never replaced, per-type independence, "
         "the registry survives any later operation history (induction over operation lists); dispatch consults exactly this registry. "
         "Tied by correspondence on exhaustive short histories.", "8.C20",
         "state-machine invariant by induction over operation lists + correspondence"),
}
