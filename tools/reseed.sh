#!/bin/bash
# reseed.sh <regex on seed dir names>: re-runs those archived seeded changes (like seedall.sh) and replaces their lines in seeded/RESULTS.txt
cd /verif
out=/verif/seeded/RESULTS.txt
for d in /verif/seeded/*/; do
  name=$(basename $d)
  echo "$name" | grep -Eq "$1" || continue
  [ -f "$d/meta.json" ] || continue
  p=$(python3 -c "import json; m=json.load(open('$d/meta.json')); print(m.get('breaks_property') or m.get('property'))")
  r=$(tools/seedtest.sh "$d" $p 2>&1 | tail -2 | tr '\n' ' ')
  verdict=MISSED
  case "$r" in *"no-failing-input-found"*) verdict="DETECTED(no-failing-input-found)";; *VIOLATION*) verdict="DETECTED(failing input)";; esac
  proofs=$(echo "$r" | grep -o "proofs [0-9]*/[0-9]*" | head -1)
  corr=$(echo "$r" | grep -o "diff=[0-9]*" | head -1)
  fail=$(echo "$r" | grep -o "fail=[0-9]*" | head -1)
  line="$name | $p | $verdict | correspondence $corr | oracle $fail | $proofs"
  echo "$line"
  python3 - "$name" "$line" <<'P'
import sys
name,line=sys.argv[1],sys.argv[2]
p='/verif/seeded/RESULTS.txt'
ls=open(p).read().splitlines()
ls=[line if l.startswith(name+" |") else l for l in ls]
if not any(l.startswith(name+" |") for l in ls): ls.append(line)
open(p,'w').write("\n".join(sorted(ls))+"\n")
P
done
