#!/bin/bash
# runs every archived seeded change against the check of the property it breaks (from meta.json)
# and writes one line per seed to seeded/RESULTS.txt
cd /verif
out=/verif/seeded/RESULTS.txt
: > $out.tmp
for d in /verif/seeded/*/; do
  [ -f "$d/meta.json" ] || continue
  p=$(python3 -c "import json; m=json.load(open('$d/meta.json')); print(m.get('breaks_property') or m.get('property'))")
  r=$(tools/seedtest.sh "$d" $p 2>&1 | tail -2 | tr '\n' ' ')
  name=$(basename $d)
  verdict=MISSED
  case "$r" in *"no-failing-input-found"*) verdict="DETECTED(no-failing-input-found)";; *VIOLATION*) verdict="DETECTED(failing input)";; esac
  proofs=$(echo "$r" | grep -o "proofs [0-9]*/[0-9]*" | head -1)
  corr=$(echo "$r" | grep -o "diff=[0-9]*" | head -1)
  fail=$(echo "$r" | grep -o "fail=[0-9]*" | head -1)
  echo "$name | $p | $verdict | correspondence $corr | oracle $fail | $proofs" | tee -a $out.tmp
done
mv $out.tmp $out
