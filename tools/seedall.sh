#!/bin/bash
# runs every archived seeded change against the check(s) of the property it breaks (from meta.json)
cd /verif
for d in /verif/seeded/*/; do
  p=$(python3 -c "import json; m=json.load(open('$d/meta.json')); print(m.get('breaks_property') or m.get('property'))")
  echo "== $d ($p)"
  tools/seedtest.sh "$d" $p 2>&1 | tail -4
done
