#!/usr/bin/env python3
"""validates MANIFEST.json and every evidence file against the schemas (run with python3-vt)"""
import json, glob, sys, jsonschema
ok = True
try:
    jsonschema.validate(json.load(open('/verif/MANIFEST.json')), json.load(open('/root/.vp/MANIFEST.schema.json')))
    print("MANIFEST ok")
except Exception as e:
    ok = False; print("MANIFEST INVALID", str(e)[:500])
sch = json.load(open('/root/.vp/EVIDENCE.schema.json'))
for f in sorted(glob.glob('/verif/evidence/*.json')):
    try:
        d = json.load(open(f)); jsonschema.validate(d, sch)
        c = d["coverage"]
        print(f.split('/')[-1], d["level"], "ok", "obl=%s/%s" % (c.get("discharged"), c.get("obligations")), "eval=%s distinct=%s" % (c.get("evaluations"), c.get("distinct_nontrivial")), "viol=%s" % d.get("violations"))
    except Exception as e:
        ok = False; print(f, "INVALID", str(e)[:300])
sys.exit(0 if ok else 1)
