#!/usr/bin/env python3
"""check.py <Cnn> [--tier quick|thorough] [--replay path]

One check run (DESIGN.md section 7):
  1. regenerate coq/Gen from /repo's working tree (translator)
  2. make the Coq development (kernel-checked proofs), hygiene gate
  3. build the Go harness (real code, -tags verif) and the extracted model
  4. generate this property's cases, run the implementation, compare with the
     model (correspondence) and with the extracted specification (oracle)
  5. decide: evidence + exit 0, or VIOLATION line + exit 1
"""
import sys, os, json, time, subprocess, hashlib, fcntl, re, binascii, random, shutil, glob

VERIF = os.path.dirname(os.path.dirname(os.path.abspath(__file__)))
REPO = os.environ.get("VERIF_REPO", "/repo")
BUILD = os.path.join(VERIF, "build")
COQ = os.path.join(VERIF, "coq")
sys.path.insert(0, os.path.join(VERIF, "tools"))

GOENV = dict(os.environ, GOFLAGS="-mod=mod", GOPROXY="off", GOSUMDB="off", GOTOOLCHAIN="local",
             CGO_ENABLED=os.environ.get("CGO_ENABLED", "0"))

ALLOWED_AXIOMS = {
    # stdlib axioms reached through Flocq's BinarySingleNaN proofs (floats only)
    "ClassicalDedekindReals.sig_not_dec", "ClassicalDedekindReals.sig_forall_dec",
    "FunctionalExtensionality.functional_extensionality_dep", "Classical_Prop.classic",
}

TRUSTED_BASE = [
    "Coq 8.16.1 kernel (coqc; vm_compute used for finite sweeps and witnesses; no native_compute)",
    "axioms: none for lexer/parser/scoping/registry theorems; theorems mentioning float operations inherit "
    "ClassicalDedekindReals.sig_not_dec, sig_forall_dec, FunctionalExtensionality.functional_extensionality_dep, "
    "Classical_Prop.classic through Flocq (Print Assumptions output is parsed on every run)",
    "translator /verif/translator (go/ast): token enum, keywords, directives, token names, precedences, "
    "prefix/infix registration, parseExpression call-site precedences, loop guard token sets, built-in names, "
    "fail.go messages, default error page -> coq/Gen/*.v, regenerated every run",
    "extraction: ExtrOcamlBasic only (bool, option, unit, list, prod, sumbool, sumor; andb/orb inlined); "
    "nat, N, Z, positive, Flocq binary_float stay inductive; no Extract Constant/Inductive of ours",
    "OCaml 4.13.1 + hand-written driver /verif/ocaml/*.ml (hex I/O, s-expression reader, observation printers)",
    "Go harness /verif/harness (worker subprocess, recover/watchdog, data construction by reflection, "
    "canonicalisation) and the verif-tagged hooks in /repo/verif_hooks.go",
    "modelled, not verified: Go runtime and standard library (strconv, strings, html, unicode/utf8, reflect, "
    "path/filepath, os, fmt, net/http) - each used function has a Gallina counterpart validated only by the "
    "correspondence run",
]


def sh(cmd, cwd=None, env=None, timeout=None, check=False):
    p = subprocess.run(cmd, cwd=cwd, env=env, shell=isinstance(cmd, str), stdout=subprocess.PIPE,
                       stderr=subprocess.STDOUT, text=True, timeout=timeout)
    if check and p.returncode != 0:
        raise RuntimeError("command failed: %s\n%s" % (cmd, p.stdout[-4000:]))
    return p.returncode, p.stdout


def hx(b):
    if isinstance(b, str):
        b = b.encode("utf-8", "surrogateescape")
    return binascii.hexlify(b).decode() if b else "-"


def unhx(s):
    return b"" if s == "-" else binascii.unhexlify(s)


def show(s):
    """printable rendering of a hex field for samples/replays"""
    try:
        return unhx(s).decode("utf-8")
    except Exception:
        return repr(unhx(s))


# ----------------------------------------------------------------------------- build

def tree_hash(paths, exts):
    h = hashlib.sha256()
    for root in paths:
        for dp, dn, fn in sorted(os.walk(root)):
            dn[:] = sorted(d for d in dn if d not in (".git", "build", "Gen", "evidence", "replays", "seeded", "__pycache__"))
            for f in sorted(fn):
                if f.endswith(exts) and not f.endswith("_test.go"):
                    p = os.path.join(dp, f)
                    h.update(p.encode())
                    with open(p, "rb") as fh:
                        h.update(fh.read())
    return h.hexdigest()


def coq_files():
    files = []
    for d in ("Gen", "Base", "Model", "Spec", "Proofs", "Properties"):
        files += sorted(glob.glob(os.path.join(COQ, d, "*.v")))
    return [os.path.relpath(f, COQ) for f in files]


def build_all(log):
    """Rebuilds everything that depends on /repo or /verif sources. Returns a dict:
       {translator_ok, translator_msg, coq_failed: [files], harness_ok, model_ok, build_log}"""
    os.makedirs(BUILD, exist_ok=True)
    res = {"translator_ok": True, "translator_msg": "", "coq_failed": [], "harness_ok": True,
           "model_ok": True, "log": ""}
    lock = open(os.path.join(BUILD, ".lock"), "w")
    fcntl.flock(lock, fcntl.LOCK_EX)
    try:
        stamp = tree_hash([REPO], (".go", ".tw")) + tree_hash(
            [os.path.join(VERIF, d) for d in ("coq", "ocaml", "harness", "translator")], (".v", ".ml", ".go", ".sh", ".mod", "_CoqProject"))
        stamp_file = os.path.join(BUILD, "stamp.json")
        if os.path.exists(stamp_file):
            try:
                old = json.load(open(stamp_file))
                if old.get("stamp") == stamp and os.path.exists(os.path.join(BUILD, "twharness")) \
                        and os.path.exists(os.path.join(BUILD, "ocaml", "twmodel")):
                    return old["res"]
            except Exception:
                pass
        t0 = time.time()
        # 1. translator
        rc, out = sh(["go", "build", "-o", os.path.join(BUILD, "translator"), "."],
                     cwd=os.path.join(VERIF, "translator"), env=GOENV)
        res["log"] += out
        if rc != 0:
            raise RuntimeError("cannot build translator:\n" + out)
        os.makedirs(os.path.join(COQ, "Gen"), exist_ok=True)
        rc, out = sh([os.path.join(BUILD, "translator"), REPO, os.path.join(COQ, "Gen")])
        res["log"] += out
        if rc != 0:
            res["translator_ok"] = False
            res["translator_msg"] = out.strip()
        # 2. Coq
        files = coq_files()
        rc, out = sh(["coq_makefile", "-f", "_CoqProject", "-o", "Makefile"] + files, cwd=COQ)
        rc, out = sh("timeout 3000 make -k -j16 2>&1", cwd=COQ)
        res["log"] += out[-20000:]
        # files whose compilation failed in this make, and everything that depends on one of them
        # (their stale .vo from an earlier build must not count as a checked proof)
        direct = set(m + ".v" for m in re.findall(r"\*\*\* \[Makefile[^\]]*?:\s*(\S+?)\.vo\] Error", out))
        graph = dep_graph()
        failed = set(f for f in files if not os.path.exists(os.path.join(COQ, f + "o"))) | direct
        changed = True
        while changed:
            changed = False
            for f in files:
                if f not in failed and any(d in failed for d in graph.get(f, [])):
                    failed.add(f)
                    changed = True
        for f in failed:
            for ext in ("o", "ok", "os"):
                try:
                    os.remove(os.path.join(COQ, f + ext))
                except OSError:
                    pass
        failed = sorted(failed)
        res["coq_failed"] = failed
        res["coq_errors"] = "\n".join(l for l in out.splitlines() if l.startswith("File ") or l.startswith("Error"))[-3000:]
        # 3. extraction + OCaml (model files contain no proofs, so this works when a proof breaks)
        rc, out = sh(["sh", os.path.join(VERIF, "ocaml", "build.sh")])
        res["log"] += out
        if rc != 0 or not os.path.exists(os.path.join(BUILD, "ocaml", "twmodel")):
            res["model_ok"] = False
            res["model_msg"] = out[-3000:]
        # 4. harness from the working tree
        rc, out = sh(["go", "build", "-tags", "verif", "-o", os.path.join(BUILD, "twharness"), "."],
                     cwd=os.path.join(VERIF, "harness"), env=GOENV)
        res["log"] += out
        if rc != 0:
            res["harness_ok"] = False
            res["harness_msg"] = out[-3000:]
        # the same harness with the race detector (needs cgo); optional
        rc, out = sh(["go", "build", "-race", "-tags", "verif", "-o", os.path.join(BUILD, "twharness-race"), "."],
                     cwd=os.path.join(VERIF, "harness"), env=dict(GOENV, CGO_ENABLED="1"))
        res["race_ok"] = (rc == 0)
        res["build_s"] = round(time.time() - t0, 1)
        res["log"] = res["log"][-6000:]
        json.dump({"stamp": stamp, "res": res}, open(stamp_file, "w"))
        return res
    finally:
        fcntl.flock(lock, fcntl.LOCK_UN)
        lock.close()


# ----------------------------------------------------------------------------- proofs

HYGIENE = re.compile(r"\b(Admitted|admit|Axiom|Parameter|Conjecture|Admit Obligations)\b|Unset Guard|bypass_check|type-in-type|impredicative-set|Unset Positivity|Unset Universe")


def dep_graph():
    """direct project-local dependencies of every .v file (paths relative to coq/), from coqdep's output"""
    deps_file = os.path.join(COQ, ".Makefile.d")
    graph = {}
    if os.path.exists(deps_file):
        for line in open(deps_file):
            if ":" not in line:
                continue
            lhs, rhs = line.split(":", 1)
            tg = [t for t in lhs.split() if t.endswith(".vo")]
            if not tg:
                continue
            src = tg[0][:-1]
            graph[src] = [d[:-1] for d in rhs.split() if d.endswith(".vo") and not d.startswith("/")]
    return graph


def dep_closure(vfile):
    """project-local dependency closure of a .v file (paths relative to coq/)"""
    graph = dep_graph()
    seen, todo = set(), [vfile]
    while todo:
        f = todo.pop()
        if f in seen:
            continue
        seen.add(f)
        todo += graph.get(f, [])
    return sorted(seen)


STMT = re.compile(r"^\s*(Theorem|Lemma|Example|Corollary|Fact|Proposition|Remark)\s+([A-Za-z0-9_']+)", re.M)


def proof_status(prop, build):
    """obligations / discharged for Properties/<prop>.v and what is broken"""
    pfile = "Properties/%s.v" % prop
    st = {"file": pfile, "exists": os.path.exists(os.path.join(COQ, pfile)), "broken": [], "obligations": 0,
          "discharged": 0, "theorems": [], "axioms": [], "hygiene": []}
    if not st["exists"]:
        return st
    closure = dep_closure(pfile)
    for f in closure:
        path = os.path.join(COQ, f)
        if not os.path.exists(path) or f.startswith("Gen/"):
            continue
        text = open(path).read()
        names = STMT.findall(text)
        st["obligations"] += len(names)
        if f in build["coq_failed"]:
            st["broken"].append(f)
        else:
            st["discharged"] += len(names)
        # hygiene: comments are stripped first
        stripped = re.sub(r"\(\*.*?\*\)", "", text, flags=re.S)
        for m in HYGIENE.finditer(stripped):
            st["hygiene"].append("%s: %s" % (f, m.group(0)))
    if pfile in build["coq_failed"] and pfile not in st["broken"]:
        st["broken"].append(pfile)
    text = open(os.path.join(COQ, pfile)).read()
    st["theorems"] = [n for _, n in STMT.findall(text)]
    # axioms as Print Assumptions reported them during this make (stored by coqc output in the log of the file)
    ax_file = os.path.join(COQ, "Properties", prop + ".assumptions")
    if pfile not in build["coq_failed"]:
        rc, out = sh("coqc -q $(grep -v '^-arg' _CoqProject | tr '\\n' ' ') %s 2>&1" % pfile, cwd=COQ)
        axioms = set()
        for line in out.splitlines():
            m = re.match(r"^\s*([A-Za-z_][A-Za-z0-9_.']*)\s*$", line)
            m2 = re.match(r"^([A-Za-z_][A-Za-z0-9_.']*)\s*:", line)
            if m2 and "." in m2.group(1):
                axioms.add(m2.group(1))
        st["axioms"] = sorted(axioms)
        st["closed"] = out.count("Closed under the global context")
        bad = [a for a in axioms if a not in ALLOWED_AXIOMS]
        if bad:
            st["hygiene"].append("axioms outside the allow-list: " + ", ".join(bad))
    return st


def coqchk_status(prop):
    """thorough tier: re-check the compiled property file and everything it depends on with the independent
    checker coqchk and read the axioms it lists"""
    cmd = "timeout 3000 coqchk -silent -o $(grep -v '^-arg' _CoqProject | tr '\\n' ' ') TW.%s 2>&1" % prop
    t0 = time.time()
    rc, out = sh(cmd, cwd=COQ)
    axioms = []
    grab = False
    for line in out.splitlines():
        if line.startswith("* Axioms:"):
            grab = True
            continue
        if line.startswith("* "):
            grab = False
        if grab and line.strip() and line.strip() != "<none>":
            axioms.append(line.strip())
    res = {"rc": rc, "axioms": axioms, "wall_s": round(time.time() - t0, 1), "cmd": "coqchk -silent -o <project paths> TW.%s" % prop,
           "unsafe": [l.strip() for l in out.splitlines() if ("type-in-type" in l or "unsafe" in l or "positivity" in l) and "<none>" not in l]}
    return res


# ----------------------------------------------------------------------------- running cases

def run_cases(lines, tag, timeout_ms=3000, jobs=16, binary="twharness", extra_env=None):
    """lines: list of case lines (id \\t kind \\t fields...). Returns list of dicts."""
    work = os.path.join(BUILD, "work")
    os.makedirs(work, exist_ok=True)
    cpath = os.path.join(work, tag + ".cases")
    opath = os.path.join(work, tag + ".obs")
    vpath = os.path.join(work, tag + ".verdict")
    spath = os.path.join(work, tag + ".spec")
    with open(spath, "w") as f:
        f.write("\n".join(lines) + "\n")
    with open(cpath, "w") as cf:
        p = subprocess.run([os.path.join(BUILD, "ocaml", "twmodel"), "expand", spath], stdout=cf,
                           stderr=subprocess.PIPE, text=True, timeout=7200)
    if p.returncode != 0:
        raise RuntimeError("twmodel expand failed: " + p.stderr[-2000:])
    lines = [l for l in open(cpath).read().split("\n") if l]
    env = dict(os.environ, VERIF_TMP=os.path.join(BUILD, "tmp"))
    if extra_env:
        env.update(extra_env)
    os.makedirs(env["VERIF_TMP"], exist_ok=True)
    rc, out = sh([os.path.join(BUILD, binary), "run", cpath, opath, "-j", str(jobs), "-timeout", str(timeout_ms)],
                 env=env, timeout=7200)
    if rc != 0:
        raise RuntimeError("harness failed: " + out[-2000:])
    with open(vpath, "w") as vf:
        p = subprocess.run([os.path.join(BUILD, "ocaml", "twmodel"), "check", cpath, opath], stdout=vf,
                           stderr=subprocess.PIPE, text=True, timeout=7200)
    if p.returncode != 0:
        raise RuntimeError("twmodel failed: " + p.stderr[-2000:])
    results = []
    with open(opath) as of, open(vpath) as vf:
        for cl, ol, vl in zip(lines, of, vf):
            v = vl.rstrip("\n").split("\t")
            o = ol.rstrip("\n").split("\t", 1)
            results.append({"case": cl, "impl": o[1] if len(o) > 1 else "", "corr": v[1], "oracle": v[2],
                            "model": "\t".join(v[3:])})
    return results


def decode_obs(s):
    parts = []
    for p in s.split("\t"):
        if re.fullmatch(r"([0-9a-f]{2})+", p) and len(p) >= 2:
            parts.append(show(p))
        else:
            parts.append(p)
    return " | ".join(parts)


def describe_case(r):
    f = r["case"].split("\t")
    d = {"id": f[0], "kind": f[1], "fields": [show(x) if re.fullmatch(r"([0-9a-f]{2})+|-", x) else x for x in f[2:]],
         "implementation": decode_obs(r["impl"]), "model": decode_obs(r["model"]), "correspondence": r["corr"],
         "oracle": r["oracle"], "case_line": r["case"]}
    return d


# ----------------------------------------------------------------------------- main

def load_known_findings():
    p = os.path.join(VERIF, "known_findings.json")
    if not os.path.exists(p):
        return []
    return json.load(open(p))


def main():
    import props, claims
    args = sys.argv[1:]
    if not args:
        print(__doc__)
        sys.exit(2)
    prop = args[0]
    if prop == "--setup":
        b = build_all(None)
        ok = b["harness_ok"] and b["model_ok"] and b["translator_ok"] and not b["coq_failed"]
        print("setup: translator=%s coq_failed=%s model=%s harness=%s (%.1fs)" % (
            b["translator_ok"], b["coq_failed"], b["model_ok"], b["harness_ok"], b.get("build_s", 0)))
        if not ok:
            print(b.get("coq_errors", ""), b.get("model_msg", ""), b.get("harness_msg", ""), b.get("translator_msg", ""))
        sys.exit(0 if ok else 1)
    tier = os.environ.get("VERIF_TIER", "quick")
    replay = None
    i = 1
    while i < len(args):
        if args[i] == "--tier":
            tier = args[i + 1]; i += 2
        elif args[i] == "--replay":
            replay = args[i + 1]; i += 2
        else:
            i += 1
    seed = int(os.environ.get("VERIF_SEED", "20260926"))
    t0 = time.time()
    spec = props.PROPS[prop]

    build = build_all(None)
    if not build["harness_ok"]:
        # the repository no longer compiles with the hooks: nothing can be checked
        print("check: /repo does not build with -tags verif:\n" + build.get("harness_msg", ""))
        sys.exit(2)
    if not build["model_ok"]:
        # without the extracted model nothing can be compared: this is a broken check, not a pass
        print("check: the model does not build:\n" + build.get("model_msg", "") + build.get("coq_errors", ""))
        sys.exit(2)

    if replay:
        rp = json.load(open(replay))
        lines = [c["case_line"] for c in rp.get("cases", []) if "case_line" in c]
        if not lines:
            print("replay file names no concrete case: " + rp.get("broken", ""))
            sys.exit(0)
        for r in run_cases(lines, prop + "-replay"):
            print(json.dumps(describe_case(r), indent=1, ensure_ascii=False))
        sys.exit(0)

    rng = random.Random(seed)
    broken = []
    if not build["translator_ok"]:
        broken.append("translator: " + build["translator_msg"])
    pst = proof_status(prop, build)
    if not pst["exists"]:
        broken.append("theorem file missing: " + pst["file"])
    for f in pst["broken"]:
        broken.append("theorem: %s no longer checks" % f)
    for h in pst["hygiene"]:
        broken.append("hygiene: " + h)

    chk = None
    if tier == "thorough" and pst["exists"] and not pst["broken"]:
        chk = coqchk_status(prop)
        short = set(a.split(".")[-1] for a in ALLOWED_AXIOMS)
        if chk["rc"] != 0:
            broken.append("coqchk: the independent checker rejects Properties/%s.vo or a dependency (rc %d)" % (prop, chk["rc"]))
        for a in chk["axioms"]:
            if a.split(".")[-1] not in short:
                broken.append("coqchk: axiom outside the allow-list: " + a)
        for u in chk["unsafe"]:
            broken.append("coqchk: " + u)

    known = [k for k in load_known_findings() if k["property"] == prop and k.get("status") == "open"]

    # ---- correspondence + oracle on the tier's cases
    lines, meta = spec.generate(rng, tier)
    results = run_cases(lines, prop, timeout_ms=spec.timeout_ms) if build["model_ok"] else []
    if prop == "C15" and build.get("race_ok") and build["model_ok"]:
        # the same concurrent runs under the race detector, at three GOMAXPROCS settings
        for procs in (("1", "4", "16") if tier == "thorough" else ("4",)):
            rr = run_cases(lines, prop + "-race" + procs, timeout_ms=spec.timeout_ms * 3, jobs=4, binary="twharness-race",
                           extra_env={"GORACE": "halt_on_error=1 log_path=%s" % os.path.join(BUILD, "tmp", "race"), "GOMAXPROCS": procs})
            for r in rr:
                r["case"] = r["case"].replace("C15:", "C15:race%s:" % procs, 1)
            results += rr
    stats = {"same": 0, "DIFF": 0, "unmodelled": 0, "ok": 0, "na": 0, "FAIL": 0}
    diffs, fails, known_hits = [], [], {}
    distinct = set()
    for r in results:
        stats[r["corr"]] = stats.get(r["corr"], 0) + 1
        o = r["oracle"].split(":", 1)[0]
        stats[o] = stats.get(o, 0) + 1
        if r["oracle"] == "ok:indomain":
            stats["indomain"] = stats.get("indomain", 0) + 1
        if r["corr"] == "DIFF":
            diffs.append(r)
        if o == "FAIL":
            k = spec.classify(r, known)
            if k:
                known_hits.setdefault(k["id"], []).append(r)
            else:
                fails.append(r)
        if spec.nontrivial(r):
            distinct.add(r["case"].split("\t", 2)[2])

    # cross-case conditions (determinism across repetitions / fresh processes, history independence)
    for r, why in spec.post_check(results):
        r["oracle"] = "FAIL:" + why
        stats["FAIL"] = stats.get("FAIL", 0) + 1
        if not spec.classify(r, known):
            fails.append(r)

    # ---- search for a failing input when a proof or the correspondence broke
    searched = 0
    if (broken or diffs) and not fails and build["model_ok"]:
        for rnd in range(3):
            more, _ = spec.generate(random.Random(seed + 1000 + rnd), "search")
            rs = run_cases(more, prop + "-search", timeout_ms=spec.timeout_ms)
            searched += len(rs)
            for r in rs:
                if r["oracle"].startswith("FAIL") and not spec.classify(r, known):
                    fails.append(r)
                if r["corr"] == "DIFF":
                    diffs.append(r)
            if fails:
                break

    os.makedirs(os.path.join(VERIF, "evidence"), exist_ok=True)
    os.makedirs(os.path.join(VERIF, "replays"), exist_ok=True)
    violation = None
    if fails:
        fails.sort(key=lambda r: len(r["case"]))
        rp = {"property": prop, "kind": "failing-input", "seed": seed, "tier": tier,
              "what": "the implementation's behaviour contradicts the extracted specification on this input",
              "cases": [describe_case(r) for r in fails[:5]], "broken": "; ".join(broken)}
        h = hashlib.sha1(fails[0]["case"].encode()).hexdigest()[:10]
        violation = (os.path.join(VERIF, "replays", "%s-%s.json" % (prop, h)), rp, "")
    elif broken or diffs:
        what = list(broken)
        if diffs:
            what.append("correspondence: model and implementation differ on %d case(s)" % len(diffs))
        diffs.sort(key=lambda r: len(r["case"]))
        rp = {"property": prop, "kind": "no-failing-input-found", "seed": seed, "tier": tier,
              "broken": "; ".join(what), "coq_errors": build.get("coq_errors", ""),
              "cases": [describe_case(r) for r in diffs[:5]], "searched_cases": searched}
        h = hashlib.sha1(("; ".join(what)).encode()).hexdigest()[:10]
        violation = (os.path.join(VERIF, "replays", "%s-%s.json" % (prop, h)), rp, " no-failing-input-found")

    samples = [describe_case(r) for r in results[:: max(1, len(results) // 4)][:4]]
    for s in samples:
        s.pop("case_line", None)
    ev = {
        "property_id": prop, "tier": "thorough" if tier == "thorough" else "quick", "seed": seed, "level": claims.CLAIMS[prop][0],
        "coverage": {
            "obligations": pst["obligations"], "discharged": pst["discharged"],
            "checker_cmd": "cd /verif/coq && coq_makefile -f _CoqProject -o Makefile <files> && make -j16  (coqc 8.16.1, full .vo); then coqc Properties/%s.v for Print Assumptions" % prop,
            "trusted_base": TRUSTED_BASE + spec.trusted_extra,
            "theorems": pst["theorems"], "axioms_reported": pst["axioms"],
            "closed_under_global_context": pst.get("closed", 0),
            "coqchk": chk if chk is not None else "thorough tier only",
            "evaluations": len(results), "distinct_nontrivial": len(distinct),
            "rule": spec.rule, "samples": samples, "exhaustive": bool(meta.get("exhaustive", False)),
            "correspondence": {"same": stats["same"], "different": stats["DIFF"], "unmodelled": stats["unmodelled"]},
            "oracle": {"ok": stats["ok"], "fail": stats["FAIL"], "not_applicable": stats["na"]},
            "sources_inside_round_trip_theorem_domain": stats.get("indomain", 0),
            "input_distribution": meta.get("distribution", {}),
            "known_findings_seen": {k: len(v) for k, v in known_hits.items()},
            "search_cases": searched, "build_s": build.get("build_s", 0),
            "explanation": spec.explanation,
        },
        "assumptions": spec.assumptions,
        "wall_s": round(time.time() - t0, 2),
        "violations": 1 if violation else 0,
    }
    if not results:
        ev["coverage"]["evaluations"] = 0
    json.dump(ev, open(os.path.join(VERIF, "evidence", prop + ".json"), "w"), indent=1, ensure_ascii=False)

    for k in known:
        hits = known_hits.get(k["id"], [])
        wit = spec.check_known(k, run_cases) if hasattr(spec, "check_known") else bool(hits)
        if wit or hits:
            print("KNOWN-FINDING: property=%s %s" % (prop, k["what_fails"]))

    print("%s: %d cases, correspondence same=%d diff=%d unmodelled=%d, oracle ok=%d fail=%d na=%d, proofs %d/%d, %.1fs"
          % (prop, len(results), stats["same"], stats["DIFF"], stats["unmodelled"], stats["ok"], stats["FAIL"],
             stats["na"], pst["discharged"], pst["obligations"], time.time() - t0))
    if violation:
        path, rp, suffix = violation
        json.dump(rp, open(path, "w"), indent=1, ensure_ascii=False)
        print("VIOLATION property=%s replay=%s%s" % (prop, path, suffix))
        sys.exit(1)
    sys.exit(0)


if __name__ == "__main__":
    main()
