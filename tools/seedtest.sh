#!/bin/bash
# seedtest.sh <dir with patch.diff demo_test.go meta.json> <check ids...>
# confirms a seeded change (applies, suite green, demo fails with / passes without), runs the
# named checks against it and restores /repo.
set -u
D=$1; shift
export GOFLAGS=-mod=mod GOPROXY=off GOSUMDB=off GOTOOLCHAIN=local
cd /repo
if ! git diff --quiet; then echo "seedtest: /repo is dirty"; exit 2; fi
run_demo() { cp "$D/demo_test.go" /repo/zz_demo_test.go; go test -count=1 -run 'TestDemo' . >/tmp/seed_demo.log 2>&1; rc=$?; rm -f /repo/zz_demo_test.go; return $rc; }
run_demo; base=$?
if ! git apply --check "$D/patch.diff" 2>/dev/null; then echo "seedtest: patch does not apply to current /repo"; exit 3; fi
git apply "$D/patch.diff"
go build ./... >/tmp/seed_build.log 2>&1; b=$?
go test -vet=off -count=1 ./... >/tmp/seed_suite.log 2>&1; s=$?
run_demo; withp=$?
echo "seedtest: build=$b suite=$s demo_without=$base demo_with=$withp"
cd /verif
for c in "$@"; do
  out=$(python3 tools/check.py $c 2>&1 | tail -2 | tr '\n' ' ')
  echo "  $c: $out"
done
git -C /repo checkout -- . ; git -C /repo status --short | head -3
