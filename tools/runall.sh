#!/bin/sh
# runs every check of one tier in sequence; prints the summary line and any VIOLATION / KNOWN-FINDING line
cd "$(dirname "$0")/.." || exit 2
tier=${1:-quick}
rc=0
for i in 01 02 03 04 05 06 07 08 09 10 11 12 13 14 15 16 17 18 19 20; do
  python3 tools/check.py C$i --tier "$tier" 2>&1 | grep -E "^C$i:|VIOLATION|KNOWN-FINDING|Traceback|Error" || true
done
