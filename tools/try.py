#!/usr/bin/env python3
"""try.py <template> [data-sexp]  -- run one render case through implementation, model and oracle (debug aid)"""
import sys, os
sys.path.insert(0, os.path.dirname(os.path.abspath(__file__)))
import check
src = sys.argv[1]
data = sys.argv[2] if len(sys.argv) > 2 else "()"
kind = os.environ.get("KIND", "render")
line = "\t".join(["T:0", kind, check.hx(src), check.hx(data)])
for r in check.run_cases([line], "try"):
    d = check.describe_case(r)
    for k in ("fields", "implementation", "model", "correspondence", "oracle"):
        print(k, ":", d[k])
