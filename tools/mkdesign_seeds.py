#!/usr/bin/env python3
"""copies seeded/RESULTS.txt into DESIGN.md between the SEEDS markers, as a table"""
import os, json
V = os.path.dirname(os.path.dirname(os.path.abspath(__file__)))
rows = [l.strip().split(" | ") for l in open(os.path.join(V, "seeded", "RESULTS.txt")) if l.strip()]
out = ["| seeded change | property | verdict | correspondence | oracle | proofs | needs |", "|---|---|---|---|---|---|---|"]
for r in rows:
    name = r[0]
    try:
        m = json.load(open(os.path.join(V, "seeded", name, "meta.json")))
        needs = (m.get("needs") or "").replace("|", "/").replace("\n", " ")
        needs = needs[:160] + ("..." if len(needs) > 160 else "")
    except Exception:
        needs = ""
    out.append("| " + " | ".join(r + [""] * (6 - len(r))) + " | " + needs + " |")
p = os.path.join(V, "DESIGN.md")
s = open(p).read()
a = s.index("<!-- SEEDS-BEGIN -->") + len("<!-- SEEDS-BEGIN -->")
b = s.index("<!-- SEEDS-END -->")
s = s[:a] + "\n" + "\n".join(out) + "\n" + s[b:]
open(p, "w").write(s)
print(len(rows), "rows")
