#!/usr/bin/env python3
"""writes /verif/MANIFEST.json from the table below (kept in one place so it stays valid)"""
import json, os
VERIF = os.path.dirname(os.path.dirname(os.path.abspath(__file__)))

import sys
sys.path.insert(0, os.path.join(VERIF, "tools"))
from claims import CLAIMS as CLAIMED, NOTE

NOT_YET = {}

props = [json.loads(l) for l in open(os.path.join(VERIF, "properties.jsonl"))]
checks, na = [], []
for p in props:
    pid = p["id"]
    if pid in CLAIMED:
        cat, text, ref, tech = CLAIMED[pid]
        checks.append({
            "property_id": pid,
            "quick_cmd": "python3 tools/check.py %s --tier quick" % pid,
            "thorough_cmd": "python3 tools/check.py %s --tier thorough" % pid,
            "evidence_file": "/verif/evidence/%s.json" % pid,
            "replay_cmd_template": "python3 tools/check.py %s --replay {path}" % pid,
            "engine": "coq-model",
            "level_claimed": {"category": cat, "text": text, "design_ref": "DESIGN.md " + ref},
            "level_note": NOTE,
            "technique": tech,
        })
    else:
        na.append({"property_id": pid, "reason": NOT_YET.get(pid, "check not built yet at this commit (Coq model under construction); not claimed")})

m = {
 "version": 1,
 "setup_cmd": "python3 tools/check.py --setup",
 "hooks": {
   "guard": "verif",
   "enable": "go build -tags verif (harness module /verif/harness replaces github.com/textwire/textwire/v2 => /repo)",
   "baseline_off_cmd": "cd /repo && GOFLAGS=-mod=mod GOPROXY=off GOSUMDB=off GOTOOLCHAIN=local go test -vet=off -count=1 ./...",
   "source_commits": ["4b05afb"],
   "add_only": True,
 },
 "engines": [{"name": "coq-model", "path": "/verif/coq", "serves_properties": sorted(CLAIMED),
              "kind_free_text": "Coq 8.16.1 model + theorems; translator-generated tables; extracted OCaml model and oracles; Go harness on the real code"}],
 "checks": checks,
 "not_applicable": na,
 "notes": "One check = regenerate tables from /repo, make the Coq development, rebuild harness and extracted model, run generated cases through implementation, model and oracle. See DESIGN.md.",
}
json.dump(m, open(os.path.join(VERIF, "MANIFEST.json"), "w"), indent=1)
print("claimed:", sorted(CLAIMED))
