#!/bin/bash
# builds a scratch copy of the Coq tree (cp -r /verif/coq /tmp/coqwork first) in dependency order and prints only errors
cd /tmp/coqwork
F="-Q Gen TW -Q Base TW -Q Model TW -Q Spec TW -Q Proofs TW -Q Properties TW"
coq_makefile $F $(ls Gen/*.v Base/*.v Model/*.v Spec/*.v Proofs/*.v Properties/*.v) -o Makefile.cw > /dev/null 2>&1
timeout 3000 make -f Makefile.cw -j14 -k 2>&1 | grep -E "^File|Error|error" | head -40
