(* C17: the built-in error page (textwire/default-error-page.tw, regenerated into GenMisc on
   every run) evaluated by the model with the error's path, line and message left as VARIABLES.
   - debug off: the body is one constant, whatever the error: it cannot contain message, path or
     line (non-interference);
   - debug on: the body contains the path, the line and the message. *)
From Coq Require Import String.
From TW Require Import Bytes Values Eval Render Api GenMisc.
Open Scope N_scope.

Definition page_of (r : render_result) : bytes := match r with RenderOk b => b | _ => [] end.

(* the page with debug off, computed once from the regenerated template *)
Definition quiet_page : bytes :=
  Eval vm_compute in
    page_of (builtin_error_page (mkCtx []) (mkConfig [] [] [] false) (mkErr 0 [] [])).

Theorem error_page_quiet cx dir ext page (e : terr) :
  builtin_error_page cx (mkConfig dir ext page false) e = RenderOk quiet_page.
Proof. vm_compute. reflexivity. Qed.

(* non-interference: with debug off two different errors give the same body *)
Theorem error_page_no_leak cx cfg e1 e2 :
  c_debug cfg = false -> builtin_error_page cx cfg e1 = builtin_error_page cx cfg e2.
Proof.
  destruct cfg as [dir ext page dbg]. cbn [c_debug]. intros ->.
  rewrite !error_page_quiet. reflexivity.
Qed.

Lemma quiet_page_nonempty : quiet_page <> [].
Proof. discriminate. Qed.

(* ---- debug on *)
Definition has_sub (p t : bytes) : Prop := exists a b, t = a ++ p ++ b.

Lemma sub_here p r : has_sub p (p ++ r).
Proof. exists [], r. reflexivity. Qed.

Lemma sub_cons c t p : has_sub p t -> has_sub p (c :: t).
Proof. intros (a & b & ->). exists (c :: a), b. reflexivity. Qed.

Lemma sub_skip q r p : has_sub p r -> has_sub p (q ++ r).
Proof. intros (a & b & ->). exists (q ++ a), b. rewrite app_assoc. reflexivity. Qed.

Ltac find_sub := repeat first [apply sub_here | apply sub_cons | apply sub_skip].

(* with debug on the body shows the path, the line and the message *)
Definition debug_body (cx : ctx) (dir ext page : bytes) (line : nat) (path msg : bytes) : bytes :=
  page_of (builtin_error_page cx (mkConfig dir ext page true) (mkErr line path msg)).

Theorem error_page_debug_shows_path cx dir ext page line path msg :
  has_sub path (debug_body cx dir ext page line path msg).
Proof. vm_compute. find_sub. Qed.

Theorem error_page_debug_shows_line cx dir ext page line path msg :
  has_sub (Z_to_dec (wrap64 (Z.of_nat line))) (debug_body cx dir ext page line path msg).
Proof. vm_compute. find_sub. Qed.

Theorem error_page_debug_shows_message cx dir ext page line path msg :
  has_sub msg (debug_body cx dir ext page line path msg).
Proof. vm_compute. find_sub. Qed.
